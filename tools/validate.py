#!/opt/veriftools/pyvenv/bin/python
"""Validate MANIFEST.json and every evidence file against the harness schemas (run with python3-vt)."""
import glob, json, sys
import jsonschema
ok = True
man = json.load(open("/verif/MANIFEST.json"))
jsonschema.validate(man, json.load(open("/root/.vp/MANIFEST.schema.json")))
print("MANIFEST valid:", len(man["checks"]), "checks,", len(man.get("not_applicable", [])), "n/a")
es = json.load(open("/root/.vp/EVIDENCE.schema.json"))
for f in sorted(glob.glob("/verif/evidence/*.json")):
    try:
        jsonschema.validate(json.load(open(f)), es)
    except Exception as e:
        ok = False
        print("INVALID", f, str(e)[:200])
print("evidence files valid" if ok else "evidence INVALID")
sys.exit(0 if ok else 1)
