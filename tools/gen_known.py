#!/venv/bin/python
"""(Re)write /verif/known_findings.json from the tables below. Run by hand only; checks never write this file."""
import json
OPEN = [
 ("K1","C10","c10.lookup_by_unsorted_printed_form","looking a term up by its printed form fails when its factors are not in sorted order (term_indices['B:A'], get_slice('B:A')): Term hashes like its *sorted* factor string"),
 ("K2","C14","c14.multistage_not_implemented","a multistage '[...~...]' nested inside the left-hand side of another multistage formula raises NotImplementedError (experimental MULTISTAGE flag)"),
 ("K3a","C15","c15.empty_name","the empty backtick-quoted name `` cannot be referenced (tokenizer drops the empty token)"),
 ("K3b","C15","c15.name_equals_literal","a quoted name equal to a literal used in the same formula (e.g. `1`) merges with that literal because term identity is the expression text"),
 ("K3c","C15","c15.name_trailing_backslash","a quoted name ending in an odd number of backslashes cannot be referenced (backslash is the tokenizer's escape character)"),
 ("K3d","C15","c15.name_is_dot","a column named '.' cannot be referenced: the quoted token `.` is still turned into the wildcard operator"),
 ("K3e","C15","c15.quotes_pair_across_names","inside one Python fragment, quote characters belonging to two different backtick-quoted names pair up as a Python string literal and swallow the text between them"),
 ("K4a","C17","c17.Q_call_not_reported","a column referenced through Q('name') is not reported by required_variables"),
 ("K4b","C17","c17.attribute_access_pseudo_variable","attribute access / method call on a data column (x.abs()) is reported as a dotted pseudo-variable instead of the column"),
 ("K4c","C17","c17.lambda_or_comprehension","names bound by lambdas/comprehensions inside a Python fragment are reported as required variables"),
 ("K5","C20","c20.constant_terms_collide","under rank reduction several literal-only derivative terms ('0', '1') share one scoped term, so a '1' that follows another literal-only term emits no column"),
]
FIXED = [
 ("F1","C01,C14","670b2ab","'a:--b' parsed as 'a + b'; no-intercept 'a ~ --b' lost '~'"),
 ("F2","C02","db2e471","'2.5:a' with ensure_full_rank=False was unscaled"),
 ("F3","C02","e914d03","'2:A:a' / '0 + 2:A' scaled by 4 under rank reduction"),
 ("F4","C08","3d927ec","pandas str/string dtype columns passed through as raw text"),
 ("F5","C09","f45f1b4","categorical-at-fit column arriving numeric was copied into every dummy column without FactorEncodingError"),
 ("F6","C06","9f1628f","non-unique index: dropping a null row removed/miscounted rows by label"),
 ("F7","C06,C07","c63b660","drop_rows not forwarded with overrides / joint ModelSpecs builds"),
 ("F8","C06","adf1744","hashed() ignored drop_rows (length mismatch)"),
 ("F9","C06","66edaf0","empty matrix kept all rows for numpy/sparse output"),
 ("F10","C13","af4c54e","exp10(x) computed x**10"),
 ("F11","C14","0a04dd4","'(a]' escaped with AttributeError"),
 ("F12","C14,C01","ad3e045","'a**(0)' StopIteration, 'a**00' TypeError, 'a**1.2.3' bare SyntaxError, 'a**(1+2)' silently used first term"),
 ("F13","C14","1652bc0","'(a-a)/b' escaped with TypeError"),
 ("F14","C14","737a5c4","'f(``)' escaped with IndexError"),
 ("F24","C14,C15","4e18548","'f(`class`)' bare SyntaxError: quoted keyword not sanitized"),
 ("F17","C15","e7df874","'I(`a b` + `a+b`)' collapsed two names into one; substring restore corrupted names"),
 ("F18","C15","9f3a9cf","'f(\")\")', '{\"}\"}', '{x + {1: 2}}' were cut inside the fragment"),
 ("F19","C15","caec7c2","a column named '~' was taken for the formula's tilde"),
 ("F15","C14,C17,C01","3bafabe","'.' with include_intercept=False escaped with KeyError"),
 ("F16","C04","01075f4","'{center(x) * center(x)}' replayed with retrained state"),
 ("F20","C19","83f2569","Structured._flatten yielded inner tuples whole while _map descended into them"),
 ("F21","C18","fff6f49","an unfitted ModelSpec was trained in place by materialization"),
 ("F22","C17","4225eb3","required_variables raised SyntaxError for quoted non-identifier names"),
 ("F23","C05,C08","94433e1","bool column numeric under pandas materializer but categorical under narwhals"),
 ("F25","C12","11a1654","bs(): NaN / 'na'-extrapolated input gave 0 instead of NaN in columns with vanishing weights"),
 ("F26","C01","fbcc28a","'y ~ -0 + x' / 'a | +0' rejected when include_intercept=False"),
 ("F28","C12","2a16771","cc(x, df=2) (three knots): wrap-around entries overwritten, basis rows did not sum to one"),
 ("F29","C12","2bb9d12","cr/cc with constraints='center' and extrapolation='na': NaN constraint made every value NaN"),
 ("F31","C05,C06","558fbc8","a list-valued (context) factor raised AttributeError/ValueError for output='sparse' only"),
 ("F30","C05","203a5c8","C(B) over a single-level column raised ValueError under output='narwhals'"),
 ("F32","C18","d0da9eb","a model spec pickled in one process and restored in another (other hash seed) could not look up or subset its terms: cached Term hash travelled with the pickle"),
 ("F33","C04","7b233a7","'a + x | a:x': the later part's spec recorded no encoder state for factors already encoded for an earlier part; used alone on other data it re-inferred the levels"),
 ("F34","C04,C18,C13","bfed1e9","transform state keyed by environment-dependent (randomly suffixed) aliases of backtick-quoted names: state not found on reuse, and distinct names sanitizing alike shared one entry"),
 ("F35","C20","5c7627c","ModelSpec.differentiate on a fitted spec kept the structure recorded for the original formula: materializing the gradient raised KeyError"),
 ("F36","C19","cc790d5","slice replacement on a SimpleFormula (formula[0:2] = [term, term]) always raised FormulaInvalidError: the list of replacement terms was validated as if it were one term"),
 ("F37","C19","dd92c67","Structured._map ran a function that accepts the context a second time on the same leaf when it raised TypeError itself"),
 ("F27","C05,C08","8c2b710","C(B) on a categorical column lost the declared category order under the narwhals materializer"),
]
findings = [{"id": i, "property": p, "status": "open", "mechanism": m, "what": w} for i, p, m, w in OPEN]
for i, props, commit, w in FIXED:
    for p in props.split(","):
        findings.append({"id": i, "property": p, "status": "fixed", "commit": commit, "what": w,
                         "line": f"fixed: property={p} {commit} {w}"})
json.dump({"note": "open entries are matched by mechanism (a narrow classifier in the check); fixed entries suppress nothing",
           "findings": findings}, open("/verif/known_findings.json", "w"), indent=1)
print(len(findings), "entries")
