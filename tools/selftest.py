#!/venv/bin/python
"""Sensitivity self-test on scratch copies (never touches /repo's working tree):
 (1) reverts of every 'fix:' commit recorded in known_findings.json (or a hand-made reverse patch under seeded/reverts/<F>.diff
     when the plain reverse no longer applies), and
 (2) every seeded change under /verif/seeded/*/patch.diff.
For each, a pristine copy of /repo's HEAD is made under $TMPDIR, the change applied, the quick check(s) of the affected
property run with VERIF_REPO_DIR pointing at the copy, and the copy removed.  Results -> selftest_results.json (in cwd).
usage: tools/selftest.py [reverts|seeds|all] [--only ID] [--jobs N]"""
import glob, json, os, shutil, subprocess, sys, tempfile, time
from concurrent.futures import ThreadPoolExecutor

HERE = os.path.dirname(os.path.dirname(os.path.abspath(__file__)))
mode = sys.argv[1] if len(sys.argv) > 1 and not sys.argv[1].startswith("-") else "all"
only = sys.argv[sys.argv.index("--only") + 1] if "--only" in sys.argv else None
jobs = int(sys.argv[sys.argv.index("--jobs") + 1]) if "--jobs" in sys.argv else 2
match = sys.argv[sys.argv.index("--match") + 1] if "--match" in sys.argv else None


def sh(cmd, **kw):
    return subprocess.run(cmd, shell=True, capture_output=True, text=True, **kw)


BASE = tempfile.mkdtemp(prefix="fxmon_selftest_")
PRISTINE = os.path.join(BASE, "pristine")
os.makedirs(PRISTINE)
sh(f"git -C /repo archive HEAD | tar -x -C {PRISTINE}")


def run_check(pid, repo):
    t = time.time()
    env = dict(os.environ, VERIF_REPO_DIR=repo, FXMON_SHARDS=str(max(2, 16 // jobs)))
    p = subprocess.run(f"cd {HERE} && /venv/bin/python -m fxmon check {pid} --tier quick", shell=True, capture_output=True, text=True, env=env)
    mechs = sorted({ln.split("mechanism ")[1].split(":")[0] for ln in p.stdout.splitlines() if "violating cases with mechanism" in ln})
    status = next((ln for ln in p.stdout.splitlines() if ln.startswith(f"[{pid}]")), p.stdout[-300:] + p.stderr[-300:])
    return {"exit": p.returncode, "mechanisms": mechs, "wall_s": round(time.time() - t, 1), "status": status[:200]}


def one(kind, ident, patch_cmd, props):
    d = os.path.join(BASE, f"{kind}_{ident}")
    shutil.copytree(PRISTINE, d)
    try:
        r = sh(patch_cmd.format(d=d))
        if r.returncode != 0:
            return ident, {"error": "change does not apply: " + (r.stdout + r.stderr)[-200:]}
        res = {p: run_check(p, d) for p in props}
        return ident, {"checks": res, "detected": any(v["exit"] == 1 and v["mechanisms"] for v in res.values())}
    finally:
        shutil.rmtree(d, ignore_errors=True)


tasks = []
if mode in ("reverts", "all"):
    fixed = {}
    for e in json.load(open(os.path.join(HERE, "known_findings.json")))["findings"]:
        if e["status"] == "fixed":
            fixed.setdefault((e["id"], e["commit"]), []).append(e["property"])
    for (fid, commit), props in sorted(fixed.items(), key=lambda kv: int(kv[0][0][1:])):
        if only and fid != only:
            continue
        hand = os.path.join(HERE, "seeded", "reverts", f"{fid}.diff")
        if os.path.exists(hand):
            cmd = f"cd {{d}} && patch -p1 -s < {hand}"
        else:
            cmd = f"cd {{d}} && git -C /repo show {commit} | patch -p1 -R -s"
        tasks.append(("revert", fid, cmd, props))
if mode in ("seeds", "all"):
    for sd in sorted(glob.glob(os.path.join(HERE, "seeded", "C*/"))):
        sid = os.path.basename(sd.rstrip("/"))
        if (only and sid != only) or (match and match not in sid):
            continue
        meta_p = os.path.join(sd, "meta.json")
        meta = json.load(open(meta_p)) if os.path.exists(meta_p) else {}
        if meta.get("obsolete"):  # a later fix made this change harmless (see meta.json); nothing to detect any more
            continue
        props = meta.get("run_checks") or [sid.split("-")[0]]
        tasks.append(("seed", sid, f"cd {{d}} && patch -p1 -s < {sd}patch.diff", props))

results = {"reverts": {}, "seeds": {}}
try:
    with ThreadPoolExecutor(max_workers=jobs) as ex:
        for (kind, ident, cmd, props), (i2, res) in zip(tasks, ex.map(lambda t: one(*t), tasks)):
            results["reverts" if kind == "revert" else "seeds"][ident] = res
            print(kind, ident, res.get("error") or {p: (v["exit"], v["mechanisms"]) for p, v in res["checks"].items()}, flush=True)
            json.dump(results, open("selftest_results.json", "w"), indent=1)
finally:
    shutil.rmtree(BASE, ignore_errors=True)
    json.dump(results, open("selftest_results.json", "w"), indent=1)
missed = [k for sec in results.values() for k, v in sec.items() if not v.get("detected")]
print("NOT DETECTED / ERRORS:", missed)
