#!/bin/bash
# usage: try_scratch.sh <seed-id|none> <check> [tier] [seed]  -- run one check against a scratch copy of /repo HEAD (+ seeded patch)
sid=$1; chk=$2; tier=${3:-quick}; seed=${4:-0}
d=$(mktemp -d /tmp/fxscratch_XXXX)
git -C /repo archive HEAD | tar -x -C $d
if [ "$sid" != none ]; then (cd $d && patch -p1 -s < /verif/seeded/$sid/patch.diff) || { rm -rf $d; exit 9; }; fi
cd /verif && VERIF_SEED=$seed VERIF_REPO_DIR=$d FXMON_SHARDS=${FXMON_SHARDS:-4} /venv/bin/python -m fxmon check $chk --tier $tier 2>&1 | grep -E "^\[C|with mechanism|INCONCLUSIVE|Traceback|Error" | cut -c1-260 | head -${HEAD:-8}
rc=${PIPESTATUS[0]}
rm -rf $d
exit $rc
