#!/venv/bin/python
"""One-line demonstrations of the defects F1..F25 (DESIGN.md §5). Prints PRESENT/absent per F.
usage: tools/fdemo.py [F-id ...]   (REPO=<dir> selects the tree)"""
import os, sys, warnings
sys.path.insert(0, os.environ.get("REPO", "/repo"))
warnings.simplefilter("ignore")
import numpy as np, pandas as pd
import formulaic
from formulaic import Formula, model_matrix, ModelSpec
from formulaic.errors import FormulaParsingError, FormulaSyntaxError
from formulaic.parser import DefaultFormulaParser

def terms(s, **kw):
    return [str(t) for t in DefaultFormulaParser(**kw).get_terms(s)]

def exc(f, *a, **k):
    try:
        f(*a, **k)
    except BaseException as e:
        return type(e).__name__
    return None

df = pd.DataFrame({"a": [1.0, 2.0, 3.0, 4.0], "A": pd.Categorical(["x", "y", "z", "x"]), "b": [2.0, 1.0, 5.0, 7.0]})

def F1():
    try:
        return terms("a:--b") == ["1", "a", "b"]
    except FormulaParsingError:
        return False
def F2():
    m = model_matrix("0 + 2.5:a", df, ensure_full_rank=False, context={})
    return not np.allclose(m.values[:, 0], 2.5 * df.a)
def F3():
    m = model_matrix("0 + 2:A", df, context={})
    return m.values.max() == 4
def F4():
    d = pd.DataFrame({"s": pd.Series(["u", "v", "u"], dtype="str")})
    m = model_matrix("s", d, context={})
    return list(m.columns) != ["Intercept", "s[T.v]"]
def F5():
    fit = pd.DataFrame({"A": pd.Categorical(["x", "y", "z"])})
    spec = model_matrix("A", fit, context={}).model_spec
    return exc(spec.get_model_matrix, pd.DataFrame({"A": [1.0, 2.0, 3.0]})) != "FactorEncodingError"
def F6():
    d = pd.DataFrame({"x": [1.0, np.nan, 3.0, 4.0]}, index=[0, 0, 1, 1])
    try:
        return model_matrix("x", d, context={}).shape[0] != 3
    except Exception:
        return True
def F7():
    d = pd.DataFrame({"y": [1.0, 2, 3, 4], "x": [1.0, np.nan, 3, 4]})
    s = set([0])
    m = model_matrix("y ~ x", d, drop_rows=s, context={})
    return m.rhs.shape[0] != 2 or s != {0, 1}
def F8():
    d = pd.DataFrame({"h": ["p", "q", "r", "s"], "x": [1.0, np.nan, 3, 4]})
    return exc(model_matrix, "hashed(h, levels=5) + x", d, context={}) is not None
def F9():
    d = pd.DataFrame({"x": [1.0, np.nan, 3, 4]})
    m = model_matrix("0", d, output="numpy", drop_rows={1}, context={})
    return m.shape[0] != 3
def F10():
    m = model_matrix("0 + exp10(a)", df, context={})
    return not np.allclose(m.values[:, 0], 10.0 ** df.a)
def F11():
    return exc(Formula, "(a]") not in ("FormulaSyntaxError", "FormulaParsingError")
def F12():
    return any(exc(Formula, s) not in ("FormulaSyntaxError", "FormulaParsingError") for s in ["a**(0)", "a**00", "a**1.2.3"])
def F13():
    return exc(Formula, "(a-a)/b") not in ("FormulaSyntaxError", "FormulaParsingError")
def F14():
    return exc(Formula, "f(``)") not in ("FormulaSyntaxError", "FormulaParsingError", None)
def F15():
    return exc(lambda: DefaultFormulaParser(include_intercept=False).get_terms("y ~ .", context={"__formulaic_variables_available__": ["y", "x"]})) is not None
def F16():
    d0 = pd.DataFrame({"x": [1.0, 2, 3, 10]})
    m = model_matrix("0 + {center(x) * center(x)}", d0, context={})
    r = m.model_spec.get_model_matrix(d0.iloc[:2])
    return not np.allclose(r.values, m.values[:2])
def F17():
    d = pd.DataFrame({"a b": [1.0, 2, 3], "a+b": [10.0, 20, 30]})
    try:
        m = model_matrix("0 + I(`a b` + `a+b`)", d, context={})
        return not np.allclose(m.values[:, 0], [11, 22, 33])
    except Exception:
        return True
def F18():
    return any(exc(Formula, s) is not None for s in ['f(")")', '{"}"}', "{x + {1: 2}}"])
def F19():
    d = pd.DataFrame({"~": [1.0, 2, 3], "x": [1.0, 2, 4]})
    try:
        m = model_matrix("`~` + x", d, context={})
        return list(m.columns) != ["Intercept", "~", "x"]
    except Exception:
        return True
def F20():
    from formulaic.utils.structured import Structured
    s = Structured((1, (2, 3)))
    return list(s._flatten()) != [1, 2, 3]
def F21():
    spec = ModelSpec(formula="center(x)")
    d1 = pd.DataFrame({"x": [1.0, 2, 3]}); d2 = pd.DataFrame({"x": [10.0, 20, 30]})
    spec.get_model_matrix(d1)
    m = spec.get_model_matrix(d2)
    return not np.allclose(m.values[:, -1], [-10, 0, 10])
def F22():
    return exc(lambda: Formula("`a b` + x").required_variables) is not None
def F23():
    d = pd.DataFrame({"v": [True, False, True], "x": [1.0, 2, 3]})
    m1 = model_matrix("v + x", d, context={})
    m2 = model_matrix("v + x", d, materializer="narwhals", context={})
    return list(m1.columns) != list(m2.columns)
def F24():
    return exc(Formula, "f(`class`)") not in (None, "FormulaSyntaxError", "FormulaParsingError")
def F25():
    d = pd.DataFrame({"x": [0.0, 1, 2, 3, 4, np.nan]})
    m = model_matrix("0 + bs(x, degree=0, df=3)", d, na_action="ignore", context={})
    return not np.isnan(m.values[-1]).all()
def F32():
    import pickle, subprocess
    m = model_matrix("a + b + a:b", df, context={})
    blob = pickle.dumps(m.model_spec).hex()
    code = ("import sys,pickle; sys.path.insert(0, %r); ms = pickle.loads(bytes.fromhex(%r)); "
            "print('SUB', ms.subset('a + a:b').column_names, ms.term_indices['a:b'])" % (os.environ.get("REPO", "/repo"), blob))
    p = subprocess.run([sys.executable, "-W", "ignore", "-c", code], env=dict(os.environ, PYTHONHASHSEED="12345"), capture_output=True, text=True)
    return "SUB ('Intercept', 'a', 'a:b') [3]" not in p.stdout
def F33():
    m = model_matrix("A + a | A:a + a", df, context={})
    new = df.iloc[:2].copy()
    got = m[1].model_spec.get_model_matrix(new, context={})
    return "A" not in m[1].model_spec.encoder_state or not np.allclose(got.values, m[1].values[:2])
def F34():
    d = pd.DataFrame({"my col": [1.0, 2, 3, 6], "my_col": [4.0, 5, 6, 7]})
    m = model_matrix("center(`my col`) + my_col", d, context={})
    got = m.model_spec.get_model_matrix(d.iloc[:1], context={})
    return not np.allclose(got.values, m.values[:1])
def F35():
    ms = Formula("a + a:b").get_model_matrix(df, context={}).model_spec
    return exc(lambda: ms.differentiate("a").get_model_matrix(df)) is not None
def F36():
    from formulaic.parser.types import Term, Factor
    f = Formula("0 + a + b + a:b")
    try:
        f[0:2] = [Term([Factor("c")]), Term([Factor("d")])]
    except Exception:
        return True
    return [str(t) for t in f] != ["c", "d", "a:b"]
def F37():
    from formulaic.utils.structured import Structured
    seen = []
    def f(x, ctx=None):
        seen.append(x)
        if x == 2:
            raise TypeError("boom")
        return x
    try:
        Structured((1, 2, 3))._map(f)
    except TypeError:
        pass
    return seen != [1, 2]
def F38():
    spec = model_matrix("cc(z, df=4) - 1", pd.DataFrame({"z": np.linspace(0.25, 9.5, 30)}), context={}).model_spec
    as_float = spec.get_model_matrix(pd.DataFrame({"z": [12.0, 3.0, -4.0]}), context={}).to_numpy()
    as_int = spec.get_model_matrix(pd.DataFrame({"z": [12, 3, -4]}), context={}).to_numpy()
    return not np.allclose(as_float, as_int)
def F39():
    from formulaic.materializers import PandasMaterializer
    d = pd.DataFrame({"x": [1.0, np.nan, 3, 4], "z": [1.0, 2, 3, 4], "A": list("xyzx")})
    mat = PandasMaterializer(d)
    mat.get_model_matrix("x + A", output="sparse")
    try:
        m = mat.get_model_matrix("x + z + A", output="pandas")
    except Exception:
        return True
    return m.shape != (3, 4) or "object" in m.dtypes.astype(str).tolist()
def F40():
    clean = pd.DataFrame({"a": [1.0, 2.0, 3.0, 4.0]})
    lbl = np.array(["u", "v", "u", "v"])
    obj = np.array(["u", None, "u", "v"], dtype=object)
    if exc(lambda: model_matrix("C(lbl)", clean, context={"lbl": lbl}, na_action="raise")) is not None:
        return True
    s = set()
    m = model_matrix("C(obj) + a", clean, context={"obj": obj}, drop_rows=s)
    return s != {1} or m.shape[0] != 3
def F41():
    from formulaic.transforms.contrasts import PolyContrasts
    a = PolyContrasts(scores=np.array([1.0, 2.0, 4.0])).get_coding_matrix(["x", "y", "z"])
    b = PolyContrasts(scores=[1.0, 2.0, 4.0]).get_coding_matrix(["x", "y", "z"])
    return not np.allclose(np.asarray(a), np.asarray(b))
def F42():
    from formulaic.transforms import scale
    x = np.array([20, 30, 40], dtype="uint8")
    return not np.allclose(scale(x, center=False, _state={}), scale(x.astype(float), center=False, _state={}))
def F43():
    from formulaic.utils.constraints import LinearConstraints
    try:
        lc = LinearConstraints.from_spec("a = -1, a - -b = 3", ["a", "b"])
    except Exception:
        return True
    return lc.constraint_matrix.tolist() != [[1.0, 0.0], [1.0, 1.0]] or list(lc.constraint_values) != [-1, 3]
def F44():
    return Formula("y ~ scale + center(x)").required_variables != {"y", "scale", "x"}
def F45():
    d = pd.DataFrame({"y": [1.0, 2, 3], "x": [3.0, 1, 2], "y var": [1.0, 2, 3]})
    m = model_matrix("np.log(`y var`) ~ .", d, context={"np": np})
    return list(m.rhs.columns) != ["Intercept", "y", "x"]
def F46():
    return exc(Formula, "2:a:b + 3:b:a") != "FormulaSyntaxError" or exc(Formula, "2:a:b + 3:a:b") != "FormulaSyntaxError"
def F47():
    m = model_matrix("bs(x, df=6, lower_bound=-2, upper_bound=2, extrapolation='extend', include_intercept=True) - 1",
                     pd.DataFrame({"x": np.linspace(-10, 10, 41)}), context={})
    k = list(m.model_spec.transform_state.values())[0]["knots"]
    return k != sorted(k)
def F48():
    x = np.random.default_rng(0).uniform(0, 10, 50)
    m = model_matrix("cr(x, df=4, constraints='center', extrapolation='zero', lower_bound=2, upper_bound=8) - 1", pd.DataFrame({"x": x}), context={})
    return float(np.abs(m.values.mean(0)).max()) > 1e-12
def F49():
    return exc(Formula, "a**99999999999999999999") is not None or terms("(a+b)**12") != terms("(a+b)**2")
def F50():
    import copy
    p = DefaultFormulaParser(feature_flags=set())
    return exc(copy.deepcopy(p).get_terms, "a | b") != "FormulaSyntaxError"
def F51():
    import signal
    def boom(*a):
        raise TimeoutError
    signal.signal(signal.SIGALRM, boom)
    signal.alarm(30)
    try:
        n = len(Formula("(a+b+c+d+e+f+g+h+i+j+k+l)**99999999999999999999"))
    except (TimeoutError, MemoryError, OverflowError):
        return True
    finally:
        signal.alarm(0)
    return n != 4096
def F52():
    from formulaic.transforms import poly
    x = np.array([100, 20, -50], dtype="int8")
    return not np.allclose(poly(x, 3, raw=True, _state={}), poly(x.astype(float), 3, raw=True, _state={}))
def F53():
    x = np.array([3, 10, 200, 250, 40, 90], dtype="uint8")
    f = "bs(x, knots=[50, 120], lower_bound=10, upper_bound=220, extrapolation='extend') - 1"
    a = model_matrix(f, pd.DataFrame({"x": x}), context={}).values
    b = model_matrix(f, pd.DataFrame({"x": x.astype(float)}), context={}).values
    return not np.allclose(a, b)
def F54():
    x = np.linspace(0, 1, 9)
    try:
        m = model_matrix("cr(x, df=2) - 1", pd.DataFrame({"x": x}), context={})
    except Exception:
        return True
    return not np.allclose(m.values, np.column_stack([1 - x, x]))
def F55():
    d = pd.DataFrame({"s": list("abcabd"), "x": [1.0, 2, 3, 4, 5, 6]})
    m = model_matrix("hashed(s, levels=5) + x", d, context={})
    try:
        return m.model_spec.get_model_matrix(d.iloc[:0]).shape != (0, m.shape[1])
    except Exception:
        return True
def F56():
    d = Formula("b ~ a:b + a").differentiate("a")
    return exc(lambda: d.get_model_matrix(df, context={})) is not None or exc(lambda: d.differentiate("b")) is not None
def F57():
    d = pd.DataFrame({"\u00b5g": [1.0, 2, 3], "x": [1.0, 2, 4]})
    try:
        m = model_matrix("log(`\u00b5g`) + x", d, context={})
    except Exception:
        return True
    return not np.allclose(m.values[:, 1], np.log([1.0, 2, 3]))

def F58():
    d = pd.DataFrame({"A": pd.Series(["b", "a", "c"], dtype="string[python]"), "x": [1.0, 2, 3]})
    return model_matrix("A + x", d, output="numpy", context={}).dtype.kind not in "fiub"
def F59():
    return exc(lambda: model_matrix("a", {"a": [1.0, 2.0, 3.0]}, context={})) is not None
def F60():
    s = ModelSpec(formula="a - 1", encoder_state={"a": ("categorical", {"categories": ["x", "y"]})})
    return exc(lambda: s.get_model_matrix(pd.DataFrame({"a": list("xy")}))) is not None
def F61():
    return exc(lambda: Formula('f("\ud800")')) not in (None, "FormulaSyntaxError", "FormulaParsingError", "SyntaxError")

def F62():
    d = pd.DataFrame({"y": [1.0, 2, 3, 4], "a.b": [1.0, 3, 2, 5]})
    return "a.b" not in model_matrix("y ~ log(`a.b`)", d, context={}).model_spec.required_variables

def F63():
    import subprocess
    code = ("import sys; sys.path.insert(0, %r); from formulaic import Formula; "
            "print(Formula({'alpha', 'beta', 'gamma', 'delta', 'eps', 'zeta'}))") % os.environ.get("REPO", "/repo")
    outs = {subprocess.run([sys.executable, "-c", code], env=dict(os.environ, PYTHONHASHSEED=str(h)), capture_output=True, text=True).stdout for h in range(6)}
    return len(outs) != 1
def F64():
    import copy
    from formulaic.parser.types import Term, Factor
    T = lambda s: Term([Factor(c) for c in s.split(":")])
    f = Formula([T("a"), T("b:c")]); g = copy.copy(f)
    g.insert(0, T("x:y:z"))
    return [t.degree for t in f] != sorted(t.degree for t in f) or len(f) != 2

def F65():
    d = pd.DataFrame({"log.income": [1.0, 2, 3], "x": [1.0, 2, 4]})
    return ("log.income" not in Formula("x ~ I(`log.income` * 2)").required_variables
            or "log.income" in list(model_matrix("log(`log.income`) ~ .", d, context={}).rhs.columns))

def F66():
    from formulaic.transforms import scale
    r = scale(np.array([1.0, 2.0, 4.0, 7.0]) * 1e200)
    return not (np.isfinite(r).all() and abs(r.std(ddof=1) - 1) < 1e-9)

def F67():
    from formulaic.transforms import basis_spline as bs
    st = {}
    bs(np.array([0.0, 0.4, 0.8, 1.2, 1.6, 4.0]), knots=[0.0, 2.0], include_intercept=True, extrapolation="extend", _state=st)
    B = bs(np.array([-1.0]), knots=[0.0, 2.0], include_intercept=True, extrapolation="extend", _state=st)
    return not np.allclose([B[k][0] for k in range(6)], [0, 3.375, -2.84375, 0.5, -0.03125, 0])

def F68():
    d = pd.DataFrame({"a\u0bf0b": [1.0, 2, 3], "x": [1.0, 2, 4]})
    try:
        m = model_matrix("I(`a\u0bf0b` * 2) + x", d, context={})
    except BaseException:
        return True
    return not np.allclose(m.values[:, 1], [2.0, 4, 6])
def F69():
    return (exc(lambda: Formula("f(0x" + "F" * 5000 + ")")) not in (None, "FormulaSyntaxError", "FormulaParsingError", "SyntaxError")
            or exc(lambda: Formula("f(" + "+".join(["a"] * 3000) + ")")) not in (None, "FormulaSyntaxError", "FormulaParsingError", "SyntaxError"))
def F70():
    import dataclasses
    p = DefaultFormulaParser(feature_flags=set())
    dataclasses.replace(p, feature_flags={"twosided", "multipart"})
    try:
        p.get_terms("y ~ x | z")
    except FormulaParsingError:
        return False
    return True

def F71():
    from formulaic.transforms import ContrastsRegistry as contr
    return exc(lambda: contr.sum().apply(np.eye(3)[[0, 1, 2, 0]], levels=["a", "b", "c"], reduced_rank=True)) is not None

def F72():
    d = pd.DataFrame({"x": np.array([1, 2, 3, 4], dtype="float16")})
    return exc(lambda: model_matrix("x", d, output="sparse", context={})) is not None

def F73():
    tr = pd.DataFrame({"a": list("xyzxyz")})
    m = model_matrix("C(a, levels=lv)", tr, context={"lv": ["z", "x", "y"]})
    r = m.model_spec.get_model_matrix(tr.head(3), context={"lv": ["z", "x"]})
    return not np.allclose(np.asarray(r, float), np.asarray(m, float)[:3])

ids = sys.argv[1:] or [f"F{i}" for i in range(1, 26)]
for i in ids:
    try:
        r = globals()[i]()
        print(i, "PRESENT" if r else "absent")
    except BaseException as e:
        print(i, "PRESENT (demo raised %s: %s)" % (type(e).__name__, str(e)[:80]))
