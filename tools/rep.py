#!/venv/bin/python
"""rep.py FILE  (reads OLD and NEW from files given as argv[2], argv[3]) - exact unique replacement."""
import sys
f, old, new = sys.argv[1], open(sys.argv[2]).read(), open(sys.argv[3]).read()
s = open(f).read()
assert s.count(old) == 1, f"count={s.count(old)}"
open(f, "w").write(s.replace(old, new))
