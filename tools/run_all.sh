#!/bin/bash
# usage: run_all.sh [tier] [seed]  -- run every check, summarise
tier=${1:-quick}; seed=${2:-0}
cd "$(dirname "$0")/.." && mkdir -p out   # (the checkout this script belongs to: /verif, or a vp snapshot of it)
for i in $(seq -w 1 20); do
  s=$(date +%s)
  VERIF_SEED=$seed /venv/bin/python -m fxmon check C$i --tier $tier > out/run_C$i.log 2>&1; rc=$?
  e=$(date +%s)
  echo "C$i rc=$rc $((e-s))s $(grep -E '^\[C' out/run_C$i.log | cut -c1-150)"
done
