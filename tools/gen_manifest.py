#!/venv/bin/python
"""Regenerate /verif/MANIFEST.json from the check modules that exist (keeps it valid at all times)."""
import json, os, sys
sys.path.insert(0, "/verif")
from fxmon import use_repo
use_repo()
from fxmon.checks import IDS, load

PY = "/venv/bin/python"
props = [json.loads(l) for l in open("/verif/properties.jsonl")]
checks, na = [], []
for p in props:
    pid = p["id"]
    if pid not in IDS:
        na.append({"property_id": pid, "reason": "monitor designed (DESIGN.md section 4) but not yet built; no claim is made"})
        continue
    m = load(pid)
    checks.append({
        "property_id": pid,
        "quick_cmd": f"{PY} -m fxmon check {pid} --tier quick",
        "thorough_cmd": f"{PY} -m fxmon check {pid} --tier thorough",
        "evidence_file": f"/verif/evidence/{pid}.json",
        "replay_cmd_template": f"{PY} -m fxmon replay {{path}}",
        "engine": "fxmon",
        "level_claimed": {"category": "exploration", "text": m.LEVEL_TEXT, "design_ref": m.DESIGN_REF},
        "level_note": m.LEVEL_NOTE,
        "technique": m.TECHNIQUE,
    })
man = {
    "version": 1,
    "setup_cmd": f"{PY} -m fxmon setup",
    "hooks": {
        "guard": "FORMULAIC_VERIF",
        "enable": "no source hooks: all instrumentation (wrappers, icontract contracts, sys.monitoring callbacks) is attached from /verif/fxmon at run time; FORMULAIC_VERIF=1 is set by the harness for its own processes only",
        "baseline_off_cmd": "cd /repo && /venv/bin/python -m pytest -ra -q -p no:cacheprovider --timeout=900 --continue-on-collection-errors",
        "source_commits": [],
        "add_only": True,
    },
    "engines": [
        {"name": "fxmon", "path": "/verif/fxmon", "serves_properties": [c["property_id"] for c in checks],
         "kind_free_text": "runtime monitors: seeded generators drive the real public API of /repo's working tree; boundary recorders + internal probes feed per-property oracles (reference models, conservation laws, metamorphic relations); three-valued verdicts; JSON replays"},
    ],
    "checks": checks,
    "not_applicable": na,
    "notes": "All checks import formulaic from /repo's working tree (VERIF_REPO_DIR overrides for scratch copies). Exit 0 held / 1 violation / 2 inconclusive. Known findings: /verif/known_findings.json (mechanism-keyed).",
}
json.dump(man, open("/verif/MANIFEST.json", "w"), indent=1)


print("MANIFEST ok:", len(checks), "checks;", len(na), "not_applicable")
