#!/bin/bash
# usage: fixcommit.sh F<id> "<commit message>"
set -e
cd /repo
/verif/tools/baseline.py /repo
/verif/tools/fdemo.py $1 | grep -v conda
git add -A
git commit -q -m "$2"
git log --oneline -1
