#!/bin/bash
# usage: verify_seed.sh <seed-dir>  (contains patch.diff, demo.py) -> checks: applies; demo passes clean / fails patched; suite keeps baseline
d=$1
S=$(mktemp -d /tmp/seedchk.XXXX)
trap 'rm -rf $S' EXIT
rsync -a --exclude .git /repo/ $S/clean/
rsync -a --exclude .git /repo/ $S/mut/
(cd $S/mut && patch -p1 -s < $d/patch.diff) || { echo "RESULT $d: patch does not apply"; exit 1; }
(cd $S/clean && PYTHONPATH=$S/clean timeout 600 /venv/bin/python $d/demo.py >/dev/null 2>&1); c=$?
(cd $S/mut && PYTHONPATH=$S/mut timeout 600 /venv/bin/python $d/demo.py >/dev/null 2>&1); m=$?
b=$(/verif/tools/baseline.py $S/mut | grep -v conda | head -1)
echo "RESULT $d: demo_clean_exit=$c demo_mut_exit=$m suite: $b"
