#!/bin/bash
cd "$(dirname "$0")/.." 2>/dev/null || cd /verif
mkdir -p out
for c in C02 C03 C05 C06 C07 C08 C10 C11 C12 C13 C17 C18 C20; do
  s=$(date +%s)
  FXMON_BUDGET_S=${BUD:-330} VERIF_SEED=${SEED:-2} /venv/bin/python -m fxmon check $c --tier thorough > out/run_$c.log 2>&1; rc=$?
  e=$(date +%s)
  echo "$c rc=$rc $((e-s))s $(grep -E '^\[C' out/run_$c.log | cut -c1-150)"
done
