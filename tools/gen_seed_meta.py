#!/venv/bin/python
"""Write seeded/<id>/meta.json from the table below plus the recorded self-test results."""
import json, os, glob
NEEDS = {
 "C01-a": ("shunting-yard pops on the stacked operator's associativity instead of the incoming one", "a unary sign left on the stack followed by binary +/- at the same nesting level: '(-b + c)', no-intercept '-a + b'"),
 "C02-a": ("promoted scoped term loses the literal scale in _simplify_scoped_terms", "rank reduction on + scaled term with a categorical factor + the (reduced)+(rest)->(full) rule firing, e.g. '0 + 2.5:a'"),
 "C03-a": ("ScopedFactor.__lt__ is no longer a consistent order", "numeric factor whose name sorts before a categorical's, same pair written in different order in two terms"),
 "C04-a": ("ScopedTerm.rehydrate drops the scale", "literal-scaled term + replay through a trained spec"),
 "C05-a": ("sparse branch rescales the cached encoded column in place", "output='sparse' + scaled single-column term + a later term reusing the factor"),
 "C06-a": ("find_nulls fast path for dtype kinds b/i/u", "nullable Int64/boolean column holding <NA>"),
 "C07-a": ("encoded-factor cache key taken from the encoded values' drop_field", "same non-treatment C() factor full rank in an earlier part and reduced in a later part"),
 "C08-a": ("_is_categorical tests StringDtype by isinstance", "text column stored as ArrowDtype(string)/large_string"),
 "C09-a": ("unseen-level warning skipped when any extra value is null", "na_action='ignore' + follow-up column with both a null and an unseen level"),
 "C10-a": ("subset() keeps the parent's structure order", "subset terms requested in a different relative order than the parent"),
 "C11-a": ("falsy explicit base treated as unset (incl. drop field)", "base level label 0/False/'' that is not the default reference"),
 "C12-a": ("B-spline alpha uses numpy.isclose on knots", "distinct knots closer than 1e-5 relative (timestamps, tiny scales)"),
 "C13-a": ("scale() treats sd < 1e-8 as constant", "vector of magnitude <= 1e-9"),
 "C14-a": ("Token.required_variables only swallows SyntaxError", "lhs of '~' holds a Python fragment with attribute access on a subscript/call/literal"),
 "C15-a": ("backtick no longer opens a quote context inside Python fragments", "quoted name with a lone quote or unbalanced bracket inside f(...)/{...}"),
 "C16-a": ("same associativity change as C01-a", "constraint starting with unary sign followed by binary +/-"),
 "C17-a": ("lru_cache shares mutable Variable objects between materializations", "same expression text materialized twice with a name resolving to different layers, then reading the first spec's sources"),
 "C18-a": ("bs() mutates the caller's knots list", "bs(x, knots=<list from context>) built twice"),
 "C19-a": ("SimpleFormula.__setitem__ skips re-sorting when the degree is unchanged", "_ordering='sort' + replacement by a same-degree term"),
 "C20-a": ("differentiate_term caches factor symbols and never evicts", "same variable more than once in wrt"),
 "C01-b": ("Term identity is the ':'-joined string", "quoted name containing ':' (`a:b`) next to the interaction a:b"),
 "C02-b": ("sparse dummy encoder drops unobserved categories while names keep them", "output='sparse' + categorical with a declared but unobserved level, first fit"),
 "C03-b": ("ScopedTerm.__hash__ depends on factor order", "two terms sharing >= 2 factors written in different order"),
 "C04-b": ("ModelSpec.__getstate__ filters transform_state by substring of factor expr", "pickled/deep-copied spec + stateful transform on a backtick-quoted non-identifier column + other data"),
 "C05-b": ("ModelSpecs.get_model_matrix with overrides materializes each part separately", "structured spec reused with output= override + nulls in only some parts"),
 "C06-b": ("list overload of drop_rows deletes without index compensation", "list-valued (context) factor + >= 2 dropped rows"),
 "C07-b": ("index deletion moved after the empty-part early return", "multi-part formula with a column-less part + pandas output + a dropped row"),
 "C08-b": ("sparse encoder re-infers levels from raw values", "output='sparse' + category dtype whose declared order != sorted, first fit"),
 "C09-b": ("already-categorical follow-up data is not re-pinned to recorded levels", "follow-up categorical with fewer categories and no unseen value"),
 "C10-b": ("subset() prunes transform_state by factor expr", "subset containing a factor with a nested stateful transform, materialized on other data"),
 "C11-b": ("falsy explicit base treated as unset (base index only)", "treatment/SAS base 0/False/''"),
 "C12-b": ("centering constraint computed from the in-bounds subset", "cr/cc + constraints='center' + extrapolation='clip' + bounds narrower than the data"),
 "C13-b": ("standardize passes `_state or {}`", "fit then reuse of standardize()"),
 "C14-b": ("operator table only rebuilt when a flag is newly enabled", "parser reused after set_feature_flags() narrowed the flags"),
 "C15-b": ("error context highlights the token text instead of the source slice", "error on a quoted / reformatted / whitespace-containing token"),
 "C16-b": ("constant initialiser hoisted out of the per-constraint loop", "constraint with non-zero constant followed by one without any literal"),
 "C17-b": ("lhs variables reduced to their root name for the wildcard", "'.' with a dotted column name on the lhs"),
 "C18-b": ("builtin set passed into recursive _simplify_scoped_terms", ">= 3-way categorical interaction without its margins, across hash seeds"),
 "C19-b": ("SimpleFormula.insert fast path clamps negative indices", "degree ordering + insert at a negative in-range index"),
 "C20-b": ("differentiate keeps the formula's own ordering when not 'degree'", "_ordering='sort' formulas"),
 "C01-c": ("resolve() indexes the defaultdict operator table (inserts empty entries)", "reused no-intercept parser + '~'/'|' directly followed by a sign, from the second parse on"),
 "C02-c": ("Kronecker loop caches the product of 'all but the fastest' factor wrongly", "a term with >= 3 effective factors (two multi-column categoricals + another)"),
 "C03-c": ("only categorical factors are offered in reduced form", "numeric factor that spans the intercept: bs(x, include_intercept=True) next to an intercept/spanning term"),
 "C04-c": ("encode_contrasts fast path for categoricals with the same level *set*", "follow-up Categorical with the recorded categories in another order (numpy output or non-treatment contrasts)"),
 "C05-c": ("dense fast path multiplies raw pandas Series (label alignment)", "single-column categorical in an interaction + non-default, out-of-order index + pandas output"),
 "C06-c": ("2-D find_nulls collapses per column", "factor evaluating to a 2-D numpy array with a null"),
 "C07-c": ("per-call term cache keyed by Term across parts", "same term with a categorical factor in two parts with different rank context / factor order"),
 "C08-c": ("Series drop_rows rebuilt via numpy.delete loses categorical dtype", "category dtype with unsorted declared order + at least one dropped row"),
 "C09-c": ("CategoricalDtype equality (order-insensitive) fast path", "follow-up unordered categorical whose categories are a permutation of the recorded levels"),
 "C10-c": ("term_indices keyed by formula order instead of the structure row's term", "cluster_by='numerical_factors'"),
 "C11-c": ("Treatment _apply fast path slices the first column for non-DataFrame dummies", "contr.SAS default base + reduced rank + sparse/numpy output"),
 "C12-c": ("clip/na adjustment only applied while fitting", "cr/cc fitted with clip/na, then reused on out-of-bounds data"),
 "C13-c": ("poly leaves columns with norm isclose(0) un-normalised", "small magnitude x with degree >= 2"),
 "C14-c": ("power() no longer type-checks the exponent", "string / Ellipsis literal exponent: a**'2'"),
 "C15-c": ("sanitize_python_code drops the reserved alias template", "Python fragment holding a quoted name and a plain identifier equal to its sanitised form"),
 "C16-c": ("add_terms skips exactly cancelled terms", "a variable or constant cancelling exactly through + or across ="),
 "C17-c": ("Variable.root strips only the last attribute", "names reached through >= 2 attribute levels (cfg.opts.offset, np.linalg.norm)"),
 "C18-c": ("stateful_eval no longer wraps an existing LayeredMapping", "backtick column used in >= 2 Python factors of one build incl. a stateful one, then spec reuse"),
 "C19-c": ("with_layers splices the parent's layers instead of nesting the parent", "unnamed parent without private writes, mutated after a child was derived"),
 "C20-c": ("same as C20-a (stale symbol cache)", "same variable more than once in wrt"),
 "C01-d": ("%in% given a higher precedence than ':'", "'%in%' next to ':' or '*' without parentheses"),
 "C02-d": ("numpy output preallocated with the first column's dtype", "output='numpy' + no intercept + integer first column followed by non-integer columns"),
 "C03-d": ("spanned-terms subtraction skipped for singleton spans under ordering 'none'", "_ordering='none' + a term whose span is covered by a single earlier term"),
 "C04-d": ("stateful-call rewriter does not descend into a stateful call's arguments", "nested stateful transforms, e.g. poly(center(x), 2), replayed on data other than the training data"),
 "C05-d": ("same as C02-d (written independently)", "output='numpy' + integer first column"),
 "C06-d": ("null rows already listed by the caller are not counted under the raise policy", "na_action='raise' + caller drop set covering every null row"),
 "C07-d": ("`drop_rows or set()` replaces the caller's (empty) set", "caller passes an empty set and rows are dropped"),
 "C08-d": ("narwhals kind inference whitelists String/Categorical/Enum", "narwhals materializer + object column not sniffed as text: >= 100 leading nulls, bytes, mixed"),
 "C09-d": ("pooled encoder state filtered by `expr in formula`", "reuse with a factor whose kind flipped, in a formula where the membership test misses it"),
 "C10-d": ("_enforce_structure no longer re-orders generated columns into the recorded order", "spec reuse + mapping-valued factor presenting its sub-columns in another order"),
 "C11-d": ("forward scaled Helmert divisor off by one", "contr.helmert(scale=True, reverse=False)"),
 "C12-d": ("zero-width knot interval skipped in the B-spline recursion", "repeated interior knots"),
 "C13-d": ("exp10 computed as numpy.power(10, x)", "integer-dtype column with negative values or values >= 19"),
 "C14-d": ("bracket mismatch only checked against the top of the stack", "interleaved brackets such as '(a[b)]'"),
 "C15-d": ("sanitize_variable_names fast path skips the strip", "brace-quoted fragment with inner padding: '{ a+b }'"),
 "C16-d": ("div_term accepts a constant divided by a column", "constraint like '1 / a = 2'"),
 "C17-d": ("keyword arguments skipped when extracting variables", "column referenced only through a keyword argument: f(x, w=z)"),
 "C18-d": ("Factor.kind resolved in place on the shared Formula object", "a Formula object reused across builds (any build mutates it; visible when a column changes kind)"),
 "C19-d": ("_flatten stops at nested tuples", "Structured with a tuple inside a tuple"),
 "C20-d": ("ModelSpec.differentiate re-derives from the original formula per variable", "ModelSpec/ModelSpecs.differentiate with >= 2 variables"),
 "C01-e": ("Term.degree discounts a literal only when it is the first factor", "a numeric scale written after the variable ('a:2', '(a+b):2') under degree ordering"),
 "C02-e": ("narwhals dense fast path multiplies single-column factors with DataFrame.prod (skipna)", "narwhals materializer + >= 2 single-column factors in a term + a NaN reaching the product (na_action='ignore' / Arrow float NaN)"),
 "C03-e": ("reference column dropped only when drop_field is truthy", "categorical whose reference level label is falsy (0, False, '')"),
 "C04-e": ("_is_stateful_transform only recognises callees that are plain names", "stateful transform reached through attribute access on a context object (ft.center(x)), replayed on other data"),
 "C05-e": ("ModelSpec.get_model_matrix with option overrides no longer forwards drop_rows", "spec method + an override (output=...) + caller-supplied drop set"),
 "C06-e": ("null scan skipped for bare-name factors when the data frame holds no null", "pandas materializer + null-free frame + bare name resolving to a context vector with nulls"),
 "C07-e": ("null rows of a Python-evaluated factor taken from its columns' cached null rows", "a null-creating transform (lag(x), root of a negative) + the same column as a bare factor elsewhere in the joint build"),
 "C08-e": ("C() converts a narwhals series with pandas.Series() before the dtype-preserving branch", "narwhals input + C(...) + category dtype with unsorted declared order"),
 "C09-e": ("boolean follow-up column treated as the recorded categorical kind", "spec replay + factor recorded categorical + follow-up column of bool/boolean dtype"),
 "C10-e": ("term_variables read from the first scoped term only", "rank reduction splitting a term into >= 2 scoped terms (categorical interaction without margins)"),
 "C11-e": ("dense non-treatment contrasts looked up by argmax of the dummy row", "null / unseen value reaching a sum/Helmert/diff/poly/custom encoder with dense output"),
 "C12-e": ("EXTEND test hoisted before the extrapolation argument is normalised", "bs(..., extrapolation=SplineExtrapolation.EXTEND) (enum member) + out-of-range values"),
 "C13-e": ("special arguments taken from the dispatched implementation's signature", "scale/center applied to a one-column scipy sparse matrix, then state reuse"),
 "C14-e": ("missing-operator message built by a recursive helper", "missing operator next to an operand nested > ~1000 deep (very long chains)"),
 "C15-e": ("escape branches merged: an escaped backslash re-arms the escape", "even run of backslashes before a closing quote inside a quoted context"),
 "C16-e": ("mapping specification iterated in sorted key order", "mapping with >= 2 keys not written in lexicographic order"),
 "C17-e": ("context layer placed after the built-in transforms", "context name that shadows a built-in transform (center, scale, ...)"),
 "C18-e": ("state dicts of an unfitted spec deep-copied only when non-empty", "one unfitted ModelSpec object used for builds on two data sets"),
 "C19-e": ("nested get_with_layer_name uses `value is not default` as the found test", "None (or the default object) stored in a nested LayeredMapping layer, read through get_with_layer_name / get_layer_name_for_key"),
 "C20-e": ("a term whose remaining factors are all literals is replaced by 1", "literal-scaled term whose every variable is consumed by wrt ('2:a' wrt a)"),
 "C01-f": ("merge_operator_tokens folds pooled symbols into the (shared) token in place", "two or more '0' literals in one formula with an odd run of '-' before a non-last one: 'a - 0 + 0'"),
 "C02-f": ("metadata-key guard in _flatten_encoded_evaled_factor matches any label starting with '_'", "a categorical level (or mapping key) whose label starts with a single underscore"),
 "C03-f": ("spanned-term bookkeeping restarted for every cluster of terms", "cluster_by='numerical_factors' + terms with overlapping spans in different clusters (x:y + y:x:A)"),
 "C04-f": ("per-column nested transform state written under str(key)", "stateful transform over an integer-labelled multi-column input (scale(bs(x, df=4))), replayed on other rows"),
 "C05-f": ("sparse early return placed before the forward/backward sign flip of contr.diff", "C(f, contr.diff(backward=False)) + output='sparse' + reduced rank"),
 "C06-f": ("bare column lookups kept in the materializer's factor cache across builds", "one materializer object used for two builds, the later one using a bare column with nulls seen before"),
 "C07-f": ("factors evaluated part by part against each part's own transform state", "the same stateful factor in two parts; the later part's spec replayed alone on other data"),
 "C08-f": ("mapping input converted column-wise with numpy.asarray", "dict input holding a Categorical / category Series (declared order) or a numeric list with None"),
 "C09-f": ("encoder-state cache only filled by the default encoders, read with .get()", "C(...) factor at the same rank in two parts; the later part's spec reused alone"),
 "C10-f": ("variable_indices accumulates with += onto the lists cached in term_indices", "a variable used in >= 2 terms; any metadata read after variable_indices"),
 "C11-f": ("closed-form treatment coefficient matrix leaves rows in level order", "coefficient matrix of treatment/SAS coding whose reference level is not the first"),
 "C12-f": ("null mask of bs() taken before the 'na' extrapolation nullifies out-of-range values", "bs(..., extrapolation='na') + out-of-range value + degree 0 (or a knot of multiplicity >= degree+2)"),
 "C13-f": ("poly overwrites the recorded norms2[0] with the current row count on every call", "non-raw poly of degree >= 2 replayed on a vector of another length"),
 "C14-f": ("exc_for_token called without the `or Token()` fallback", "scaling conflict reported on a parser-generated factor ('.' expansion, multistage *_hat): '2:a + .'"),
 "C15-f": ("tokenizer whitespace class compiled with re.ASCII", "non-ASCII white space (NBSP, ideographic space, ...) at a token boundary"),
 "C16-f": ("list specification turned into dict.fromkeys(spec, 0)", "list of constraint strings with an entry repeated verbatim"),
 "C17-f": ("required_variables cached on the formula, invalidated in _reorder() only", "formula edited in place by deletion (del / pop / remove) after required_variables was read"),
 "C18-f": ("alias-restoring regex narrowed to identifiers starting with [a-z_]", "capitalised or non-ASCII quoted column inside a stateful transform + colliding alias"),
 "C19-f": ("LayeredMapping.__getitem__ reads each layer with try/except KeyError", "a supplied layer that defines __missing__ (defaultdict, Counter)"),
 "C20-f": ("the 'nothing left -> 1' fallback applied inside the loop over variables", ">= 2 variables and a term exhausted before the last one ('a' wrt (a, b))"),
}
res = {}
for f in ["seeded/selftest_round_a.json", "seeded/selftest_round_b_before_strengthening.json", "seeded/selftest_round_c_before_strengthening.json", "seeded/selftest_round_d_before_strengthening.json", "seeded/selftest_round_e_before_strengthening.json", "seeded/selftest_round_f_before_strengthening.json"]:
    if os.path.exists(f):
        for k, v in json.load(open(f))["seeds"].items():
            res.setdefault(k, {})["first"] = v
final = {}
for f in ["seeded/selftest_rounds_ab_after_strengthening.json", "seeded/selftest_final.json"]:
    if os.path.exists(f):
        final.update(json.load(open(f))["seeds"])
MANUAL_FIRST = {"C03-c": False, "C07-c": True, "C02-b": True}
for d in sorted(glob.glob("seeded/C*/")):
    sid = os.path.basename(d.rstrip("/"))
    what, needs = NEEDS[sid]
    first = res.get(sid, {}).get("first")
    rnd = sid.split("-")[1]
    det_first = MANUAL_FIRST.get(sid, first.get("detected") if first and (rnd == "a" or first.get("checks")) else None)
    if rnd != "a" and first and sid in ("C02-b",):
        det_first = None
    fin = final.get(sid)
    meta = {
        "property": sid.split("-")[0], "round": rnd, "change": what, "needs_to_manifest": needs,
        "confirmed": "tools/verify_seed.sh: patch applies to /repo HEAD; demo.py exits 0 on the clean tree and 1 with the patch; repository suite 503 passed / 2 failed with the patch (no baseline-passing test lost)",
        "run": f"tools/selftest.py seeds --only {sid} (quick check of {sid.split('-')[0]} on a scratch copy with the patch applied)",
        "detected_when_first_measured": det_first,
        "detected_by_current_checks": (fin or {}).get("detected"),
        "mechanisms_reported": sorted({m for c in (fin or first or {}).get("checks", {}).values() for m in c.get("mechanisms", [])}),
    }
    mp = os.path.join(d, "meta.json")
    if os.path.exists(mp):  # keep hand-written fields
        prev = json.load(open(mp))
        for k in ("run_checks", "note", "obsolete"):
            if k in prev:
                meta[k] = prev[k]
    json.dump(meta, open(mp, "w"), indent=1)
print("meta written for", len(glob.glob("seeded/C*/meta.json")))
