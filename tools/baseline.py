#!/venv/bin/python
"""Run the repository's pinned test-suite (guard off) and compare with BASELINE.json.

usage: tools/baseline.py [repo_dir]   -> exit 0 iff every stable-pass test still passes.
"""
import json, os, subprocess, sys, tempfile
import xml.etree.ElementTree as ET

repo = sys.argv[1] if len(sys.argv) > 1 else "/repo"
base = json.load(open("/root/.vp/BASELINE.json"))
with tempfile.TemporaryDirectory() as td:
    junit = os.path.join(td, "j.xml")
    env = dict(os.environ)
    env.pop("FORMULAIC_VERIF", None)
    env["PYTHONPATH"] = repo
    p = subprocess.run(
        ["/venv/bin/python", "-m", "pytest", "-q", "-p", "no:cacheprovider", "--timeout=900",
         "--continue-on-collection-errors", f"--junitxml={junit}"],
        cwd=repo, env=env, capture_output=True, text=True)
    tree = ET.parse(junit)
passed, failed = set(), set()
for tc in tree.iter("testcase"):
    name = f"{tc.get('classname')}::{tc.get('name')}"
    bad = any(c.tag in ("failure", "error") for c in tc)
    skipped = any(c.tag == "skipped" for c in tc)
    if bad:
        failed.add(name)
    elif not skipped:
        passed.add(name)
lost = sorted(set(base["stable_pass"]) - passed)
print(f"passed={len(passed)} failed={len(failed)} baseline={len(base['stable_pass'])} lost={len(lost)}")
for l in lost[:20]:
    print("LOST", l)
sys.exit(1 if lost else 0)
