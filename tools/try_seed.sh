#!/bin/bash
# usage: try_seed.sh <patch.diff> <check-id> [<check-id>...]   -- apply a seeded change to /repo, run quick checks, undo.
patch=$1; shift
cd /repo && git diff --quiet || { echo "/repo dirty"; exit 9; }
git -C /repo apply "$patch" || { echo "patch does not apply"; exit 9; }
trap 'git -C /repo checkout -- . ' EXIT
cd /verif
for id in "$@"; do
  /venv/bin/python -m fxmon check $id --tier ${TIER:-quick} 2>&1 | grep -v conda | grep -E "^\[|VIOLATION|INCONCLUSIVE|mechanism" | head -${LINES_MAX:-8}
  echo "exit=${PIPESTATUS[0]}"
done
