import sys, os; sys.path.insert(0, os.environ.get('REPO','/repo'))
import random, collections, warnings, itertools; warnings.simplefilter("ignore")
import numpy as np, pandas as pd
from formulaic import Formula, model_matrix
seed=int(sys.argv[1]) if len(sys.argv)>1 else 0
rng=random.Random(seed); nprng=np.random.default_rng(seed); stats=collections.Counter(); shown=0
V=list('abcde')
for it in range(int(sys.argv[2]) if len(sys.argv)>2 else 1500):
    nt=rng.randint(1,6); terms=[]
    seen=set()
    for _ in range(nt):
        fs=tuple(rng.sample(V, rng.randint(1,4)))
        if frozenset(fs) in seen: continue
        seen.add(frozenset(fs)); terms.append(fs)
    icpt=rng.random()<0.6
    f=' + '.join((['1'] if icpt else ['0'])+[':'.join(t) for t in terms])
    ordering=rng.choice(['degree','none'])
    form=Formula(f, _ordering=ordering)
    wrt=[rng.choice(V+['q']) for _ in range(rng.randint(1,3))]
    d=form.differentiate(*wrt)
    # symbolic reference
    def dterm(t):
        fs=[x.expr for x in t.factors]
        for v in wrt:
            if v not in fs: return ['0']
            fs=[x for x in fs if x!=v]
        return fs or ['1']
    exp=[sorted(dterm(t)) for t in form]
    got=[sorted(x.expr for x in t.factors) for t in d]
    if exp!=got:
        stats['SYMBAD']+=1
        if shown<5: shown+=1; print('SYMBAD', f, wrt, got, exp)
        continue
    stats['sym_ok']+=1
    # numeric: finite differences (single variable for exactness of mixed partials -> do sequentially)
    n=7; df=pd.DataFrame({v: nprng.integers(-4,5,size=n).astype(float) for v in V})
    consts=[i for i,e in enumerate(exp) if all(x in ('0','1') for x in e)]
    for efr in [True, False]:
        try:
            M=np.asarray(model_matrix(d, df, output='numpy', ensure_full_rank=efr), float)
            spec=model_matrix(d, df, output='numpy', ensure_full_rank=efr).model_spec
        except Exception as e:
            stats['EXC_'+type(e).__name__]+=1
            if shown<8: shown+=1; print('EXC', f, wrt, type(e).__name__, str(e)[:100])
            continue
        ti=[]; pos=0
        for row in spec.structure:
            ti.append((row[0], list(range(pos,pos+len(row[2]))))); pos+=len(row[2])
        bad=False; kf=False
        for i,(t,e) in enumerate(zip(form, exp)):
            # expected column of derivative term: product of remaining factors (or 0/1)
            if e==['0']: expcol=np.zeros(n)
            elif e==['1']: expcol=np.ones(n)
            else: expcol=np.prod([df[x].values for x in e],axis=0)
            # finite-difference cross check of expcol for multilinear: successive differences
            idx=ti[i][1] if i<len(ti) else None
            if len(ti)!=len(exp): idx=None
            if e in (['0'],['1']):
                if idx is None or len(idx)!=1 or not np.allclose(M[:,idx[0]], expcol):
                    if len(consts)>=2: kf=True
                    else: bad=True
            else:
                if idx is None or len(idx)!=1 or not np.allclose(M[:,idx[0]], expcol): bad=True
        stats['num_'+('BAD' if bad else ('KF' if kf else 'ok'))+('_efr' if efr else '_full')]+=1
        if bad and shown<8: shown+=1; print('NUMBAD', f, wrt, efr, spec.column_names, [ (str(t),i) for t,i in ti], exp)
print(dict(stats))
