import sys, os; sys.path.insert(0, os.environ.get("REPO","/repo"))
import numpy as np, warnings; warnings.simplefilter('ignore')
from formulaic.transforms.contrasts import *
def ref(kind, n, **o):
    if kind=='treatment':
        b=o.get('base',0); return np.delete(np.eye(n), b, axis=1)
    if kind=='sum':
        M=np.eye(n,n-1); 
        if n>0: M[-1,:]=-1
        return M
    if kind=='helmert':
        rev=o.get('reverse',True); sc=o.get('scale',False); M=np.zeros((n,n-1))
        for j in range(n-1):
            if rev: M[:j+1,j]=-1; M[j+1,j]=j+1; d=j+2
            else: M[j,j]=n-j-1; M[j+1:,j]=-1; d=n-j
            if sc: M[:,j]/=d
        return M
    if kind=='diff':
        M=np.zeros((n,n-1))
        for j in range(1,n): M[:j,j-1]=-(n-j)/n; M[j:,j-1]=j/n
        return M if o.get('backward',True) else -M
    if kind=='poly':
        sc=np.asarray(o.get('scores') or np.arange(n), float)
        V=np.vander(sc-sc.mean(), n, increasing=True)
        Q=np.zeros((n,n))
        for k in range(n):
            v=V[:,k].copy()
            for q in range(k): v-=Q[:,q]*(Q[:,q]@V[:,k])
            Q[:,k]=v/np.linalg.norm(v)
        return Q[:,1:]
bad=0; tot=0
for n in range(1,16):
    lv=[f'l{i}' for i in range(n)]
    cases=[('treatment',TreatmentContrasts(),{}),('sas',SASContrasts(),{'base':n-1}),('sum',SumContrasts(),{}),
           ('helmert',HelmertContrasts(),{}),('helmert',HelmertContrasts(reverse=False),{'reverse':False}),('helmert',HelmertContrasts(scale=True),{'scale':True}),('helmert',HelmertContrasts(reverse=False,scale=True),{'reverse':False,'scale':True}),
           ('diff',DiffContrasts(),{}),('diff',DiffContrasts(backward=False),{'backward':False}),('poly',PolyContrasts(),{}),('poly',PolyContrasts(scores=[float(i*i+1) for i in range(n)]),{'scores':[float(i*i+1) for i in range(n)]})]
    for b in range(n): cases.append(('treatment',TreatmentContrasts(base=lv[b]),{'base':b}))
    for kind,c,o in cases:
        k='treatment' if kind=='sas' else kind
        R=ref(k,n,**o); M=c.get_coding_matrix(lv).values
        tot+=1
        if M.shape!=R.shape or not np.allclose(M,R,atol=1e-8): bad+=1; print('BAD',kind,o,n)
print('tot',tot,'bad',bad)
