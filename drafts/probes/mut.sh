#!/bin/bash
# usage: mut.sh <name> <file> <python-sub-old> <python-sub-new> <cmd...>
name=$1; file=$2; old=$3; new=$4; shift 4
rm -rf /tmp/probe/s3 && rsync -a --exclude .git /tmp/probe/s2/ /tmp/probe/s3/
/venv/bin/python - "$file" "$old" "$new" <<'PY'
import sys
p='/tmp/probe/s3/'+sys.argv[1]; s=open(p).read()
old=sys.argv[2].encode().decode('unicode_escape'); new=sys.argv[3].encode().decode('unicode_escape')
assert s.count(old)>=1, 'pattern not found'
open(p,'w').write(s.replace(old,new,1))
PY
[ $? -ne 0 ] && { echo "MUTANT $name: pattern not found"; exit; }
(cd /tmp/probe/s3 && PYTHONPATH=/tmp/probe/s3 /venv/bin/python -m pytest -q -p no:cacheprovider -n 8 -rA 2>&1 | grep -E "^PASSED" | sort > /tmp/probe/mut_pass.txt)
lost=$(comm -23 /tmp/probe/base_pass.txt /tmp/probe/mut_pass.txt | wc -l)
echo "MUTANT $name | baseline-passing tests lost: $lost"
REPO=/tmp/probe/s3 "$@" 2>&1 | tail -1 | cut -c1-220
