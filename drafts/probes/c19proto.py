import sys, os; sys.path.insert(0, os.environ.get('REPO','/repo'))
import random, collections, copy, warnings; warnings.simplefilter("ignore")
from formulaic.utils.structured import Structured
from formulaic.utils.layered_mapping import LayeredMapping
from formulaic.formula import SimpleFormula, Formula
from formulaic.parser.types import Term, Factor
seed=int(sys.argv[1]) if len(sys.argv)>1 else 0
rng=random.Random(seed); stats=collections.Counter()
KEYS=['root','a','b','lhs','rhs','k1']
cnt=[0]
def leaf():
    cnt[0]+=1; return ('L',cnt[0])   # unique leaf, a tuple? no -- tuples are structure. use list
def gen_model(d):
    """model: dict key-> value; value := leaf(list) | tuple(values) | dict(model)"""
    r=rng.random()
    if d<=0 or r<0.4:
        cnt[0]+=1; return [cnt[0]]
    if r<0.7: return tuple(gen_model(d-1) for _ in range(rng.randint(1,3)))
    return {k: gen_model(d-1) for k in rng.sample(KEYS, rng.randint(1,3))}
def build(m):
    if isinstance(m, dict):
        kw={k:build(v) for k,v in m.items() if k!='root'}
        if 'root' in m: return Structured(build(m['root']), **kw)
        return Structured(**kw)
    if isinstance(m, tuple): return tuple(build(v) for v in m)
    return m
def leaves(m, order_like_structured=True):
    if isinstance(m, dict):
        # Structured stores kwargs first then root (root inserted last)
        ks=[k for k in m if k!='root']+(['root'] if 'root' in m else [])
        out=[]
        for k in ks: out+=leaves(m[k])
        return out
    if isinstance(m, tuple):
        out=[]
        for v in m: out+=leaves(v)
        return out
    return [m]
def skeleton(obj):
    if isinstance(obj, Structured): return {k: skeleton(v) for k,v in obj._structure.items()}
    if isinstance(obj, tuple): return tuple(skeleton(v) for v in obj)
    return '*'
def mskeleton(m):
    if isinstance(m, dict): return {k: mskeleton(v) for k,v in m.items()}
    if isinstance(m, tuple): return tuple(mskeleton(v) for v in m)
    return '*'
bad=0
for it in range(int(sys.argv[2]) if len(sys.argv)>2 else 2000):
    m={k: gen_model(3) for k in rng.sample(KEYS, rng.randint(1,3))}
    s=build(m)
    L=leaves(m)
    fl=list(s._flatten())
    visited=[]
    mapped=s._map(lambda x: (visited.append(x), ['m',x[0]])[1])
    ok = [id(x) for x in fl]==[id(x) for x in L] or fl==L
    ok1 = visited==fl
    ok2 = skeleton(mapped)==skeleton(s)==mskeleton(m)
    ok3 = list(mapped._flatten())==[['m',x[0]] for x in fl]
    # simplify idempotent + leaf preserving
    simp=s._simplify()
    def fl_any(o): return list(o._flatten()) if isinstance(o, Structured) else (sum((fl_any(v) for v in o), []) if isinstance(o, tuple) else [o])
    ok4 = fl_any(simp)==fl
    simp2 = simp._simplify() if isinstance(simp, Structured) else simp
    ok5 = (simp2==simp) if isinstance(simp, Structured) else True
    # to_dict round trip
    def from_dict(dd):
        if isinstance(dd, dict): return Structured(**{k: from_dict(v) for k,v in dd.items()}) if 'root' not in dd else Structured(from_dict(dd['root']), **{k:from_dict(v) for k,v in dd.items() if k!='root'})
        if isinstance(dd, tuple): return tuple(from_dict(v) for v in dd)
        return dd
    ok6 = from_dict(s._to_dict())==s
    # update = dict merge
    upd={k: gen_model(1) for k in rng.sample(KEYS, rng.randint(1,2))}
    u=s._update(**{k:build(v) for k,v in upd.items() if k!='root'}, **({'root':build(upd['root'])} if 'root' in upd else {}))
    mm={**m, **upd}
    ok7 = skeleton(u)==mskeleton({k:mm[k] for k in u._structure}) and set(u._structure)==set(mm) and sorted(map(repr,fl_any(u)))==sorted(map(repr,leaves(mm)))
    res=(ok,ok1,ok2,ok3,ok4,ok5,ok6,ok7)
    if all(res): stats['ok']+=1
    else:
        stats['BAD']+=1
        if bad<8: bad+=1; print('BAD', res, m)
print('structured', dict(stats))
# LayeredMapping model
stats=collections.Counter(); bad=0
for it in range(2000):
    nl=rng.randint(0,4); KEYS2=list('abcdef')
    layers=[{k: (i,k) for k in rng.sample(KEYS2, rng.randint(0,4))} for i in range(nl)]
    snap=copy.deepcopy(layers)
    lm=LayeredMapping(*layers)
    model_mut={}
    def view():
        d={}
        for layer in reversed(layers): d.update(layer)
        d.update(model_mut); return d
    ok=True
    for step in range(rng.randint(1,15)):
        op=rng.choice(['set','del','get','len','iter','contains'])
        k=rng.choice(KEYS2)
        if op=='set': v=('m',step); lm[k]=v; model_mut[k]=v
        elif op=='del':
            try: del lm[k]; had=True
            except KeyError: had=False
            if had != (k in model_mut): ok=False
            model_mut.pop(k,None)
        elif op=='get':
            try: got=lm[k]; 
            except KeyError: got=KeyError
            if got != view().get(k, KeyError): ok=False
        elif op=='len':
            if len(lm)!=len(view()): ok=False
        elif op=='iter':
            if set(lm)!=set(view()) or len(list(lm))!=len(set(lm)): ok=False
            if dict(lm)!=view(): ok=False
        else:
            if (k in lm)!=(k in view()): ok=False
    if layers!=snap: ok=False
    stats['ok' if ok else 'BAD']+=1
    if not ok and bad<5: bad+=1; print('BAD lm', layers, model_mut)
print('layered', dict(stats))
# SimpleFormula model
stats=collections.Counter(); bad=0
FACT=list('abcdefg')
def rterm():
    k=rng.choice([0,1,1,2,3])
    if k==0: return Term([Factor('1', eval_method='literal')])
    fs=[Factor(x) for x in rng.sample(FACT,k)]
    if rng.random()<0.15: fs.insert(0, Factor('2', eval_method='literal'))
    return Term(fs)
for it in range(2000):
    ordering=rng.choice(['none','degree','sort'])
    init=[rterm() for _ in range(rng.randint(0,5))]
    f=SimpleFormula(list(init), _ordering=ordering)
    model=list(init)
    def norm(model):
        if ordering=='degree': return sorted(model, key=lambda t:t.degree)
        return model
    model=norm(model) if ordering!='sort' else model
    ok=True
    for step in range(rng.randint(1,12)):
        op=rng.choice(['insert','append','set','del','pop','extend','remove','reverse'])
        try:
            if op=='insert': i=rng.randint(0,len(model)); t=rterm(); f.insert(i,t); model.insert(i,t)
            elif op=='append': t=rterm(); f.append(t); model.append(t)
            elif op=='set' and model: i=rng.randrange(len(model)); t=rterm(); f[i]=t; model[i]=t
            elif op=='del' and model: i=rng.randrange(len(model)); del f[i]; del model[i]
            elif op=='pop' and model: a=f.pop(); b=model.pop(); 
            elif op=='extend': ts=[rterm() for _ in range(rng.randint(0,3))]; f.extend(ts); model.extend(ts)
            elif op=='remove' and model: t=rng.choice(model); f.remove(t); model.remove(t)
            elif op=='reverse': f.reverse(); model.reverse()
        except Exception as e:
            ok=False; print('EXC', op, type(e).__name__, e); break
        if ordering=='none':
            if list(f)!=model: ok=False
        else:
            # multiset equality + invariant
            if sorted(map(repr,f))!=sorted(map(repr,model)) and ordering=='degree': ok=False
            degs=[t.degree for t in f]
            if degs!=sorted(degs): ok=False
            if ordering=='degree': model=list(f)   # resync order (stable sort semantics not part of the law)
            if ordering=='sort':
                if len(f)!=len(model): ok=False
                model=list(f)
                if list(f)!=sorted(f): ok=False
    stats['ok' if ok else 'BAD']+=1
    if not ok and bad<5: bad+=1; print('BAD formula', ordering, list(f), model)
print('formula', dict(stats))
