import warnings, itertools, random, sys; warnings.simplefilter("ignore")
import pandas as pd, numpy as np
from formulaic import Formula, model_matrix
rng = random.Random(int(sys.argv[1]) if len(sys.argv)>1 else 0)
nprng = np.random.default_rng(0)
def make_data(levels, nnum, reps=12):
    names = list(levels)
    rows = list(itertools.product(*[range(k) for k in levels.values()])) * reps
    d = {n: pd.Categorical([f'{n.lower()}{r[i]}' for r in rows]) for i, n in enumerate(names)}
    for j in range(nnum):
        d['xyzw'[j]] = nprng.normal(size=len(rows))
    return pd.DataFrame(d)
def rank(M): 
    return np.linalg.matrix_rank(M) if M.shape[1] else 0
bad = 0; tot=0
contrs = [None, 'contr.treatment', 'contr.sum', 'contr.helmert', 'contr.diff', 'contr.poly', 'contr.SAS', "contr.treatment(base='{last}')", 'contr.helmert(reverse=False)', 'contr.helmert(scale=True)', 'contr.diff(backward=False)']
for it in range(int(sys.argv[2]) if len(sys.argv)>2 else 300):
    ncat = rng.randint(1,3); nnum = rng.randint(0,2)
    levels = {n: rng.randint(1,4) for n in 'ABD'[:ncat]}
    df = make_data(levels, nnum)
    vars_ = list(levels) + list('xyzw'[:nnum])
    enc = {}
    for v in vars_:
        if v in levels:
            c = rng.choice(contrs)
            if c is None: enc[v] = v
            else:
                c = c.replace('{last}', f'{v.lower()}{levels[v]-1}')
                enc[v] = f'C({v}, {c})'
        else: enc[v] = v
    # random subset lattice
    allsub = [s for r in range(1, len(vars_)+1) for s in itertools.combinations(vars_, r)]
    k = rng.randint(1, min(6, len(allsub)))
    terms = rng.sample(allsub, k)
    tstr = [':'.join(enc[v] for v in rng.sample(t, len(t))) for t in terms]
    icpt = rng.choice(['1', '0'])
    f = ' + '.join([icpt] + tstr)
    try:
        form = Formula(f, _ordering=rng.choice(['none', 'degree', 'sort']))
        cl = rng.choice(['none', 'numerical_factors'])
        Mr = np.asarray(model_matrix(form, df, output='numpy', cluster_by=cl), dtype=float)
        Mf = np.asarray(model_matrix(form, df, output='numpy', ensure_full_rank=False), dtype=float)
    except Exception as e:
        print('EXC', f, type(e).__name__, str(e)[:150]); continue
    tot+=1
    rr, rf, rj = rank(Mr), rank(Mf), rank(np.hstack([Mr,Mf]))
    if not (rr == Mr.shape[1] and rr == rf == rj):
        bad+=1
        print('BAD', f, levels, form.ordering if hasattr(form,'ordering') else '', cl, 'ncols', Mr.shape[1], 'rank_red', rr, 'rank_full', rf, 'joint', rj)
print('tot', tot, 'bad', bad)
