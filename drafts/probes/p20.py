import warnings; warnings.simplefilter("ignore")
import numpy as np, sys
from scipy.interpolate import CubicSpline
from formulaic.transforms import natural_cubic_spline as cr, cyclic_cubic_spline as cc, basis_spline as bs, poly, scale, center, TRANSFORMS
rng = np.random.default_rng(0)
np.set_printoptions(precision=4, suppress=True)
bad=0
for it in range(300):
    n = int(rng.integers(8, 40)); x = rng.normal(size=n)
    if rng.random()<0.3: x = rng.choice(rng.normal(size=6), size=n)
    df = int(rng.integers(3, 7)); cyc = bool(rng.integers(0,2)); cen = bool(rng.integers(0,2))
    f = cc if cyc else cr
    st={}
    kw = dict(df=df)
    if cen: kw['constraints']='center'
    try:
        res = f(x, _state=st, **kw)
    except Exception as e:
        print('EXC', cyc, kw, type(e).__name__, str(e)[:100], 'nuniq', len(np.unique(x))); continue
    M = np.column_stack([res[k] for k in sorted(res)])
    knots = np.array(st['knots'])
    okdf = M.shape[1]==df
    # free basis
    st2 = dict(st); st2['constraints']=None
    resf = f(x, _state=st2, df=df)
    F = np.column_stack([resf[k] for k in sorted(resf)])
    nk = len(knots)
    if cyc:
        R = np.zeros((n, nk-1))
        for j in range(nk-1):
            y = np.zeros(nk); y[j]=1; 
            if j==0: y[-1]=1
            R[:, j] = CubicSpline(knots, y, bc_type='periodic')(x)
    else:
        R = np.zeros((n, nk))
        for j in range(nk):
            y = np.zeros(nk); y[j]=1
            R[:, j] = CubicSpline(knots, y, bc_type='natural')(x)
    okfree = F.shape==R.shape and np.allclose(F, R, atol=1e-8)
    okcen = (not cen) or np.allclose(M.mean(axis=0), 0, atol=1e-10)
    # identity at knots
    resk = f(knots, _state=dict(st2), df=df); K = np.column_stack([resk[k] for k in sorted(resk)])
    I = np.eye(nk)[:, :K.shape[1]]
    if cyc: I = np.vstack([np.eye(nk-1), np.eye(nk-1)[0]])
    okid = np.allclose(K, I, atol=1e-9)
    if not (okdf and okfree and okcen and okid):
        bad+=1; print('BAD', cyc, kw, okdf, okfree, okcen, okid, M.shape, F.shape, R.shape)
print('cubic bad', bad)
# extrapolation natural: linear beyond
x = np.linspace(0,1,20); st={}
res = cr(x, df=4, _state=st); knots=np.array(st['knots'])
xo = np.array([-0.5, 1.5, 2.0])
ro = cr(xo, df=4, _state=dict(st)); O = np.column_stack([ro[k] for k in sorted(ro)])
R = np.zeros((3, len(knots)))
for j in range(len(knots)):
    y=np.zeros(len(knots)); y[j]=1; s=CubicSpline(knots,y,bc_type='natural')
    R[:,j] = np.where(xo<knots[0], s(knots[0]) + s(knots[0],1)*(xo-knots[0]), s(knots[-1]) + s(knots[-1],1)*(xo-knots[-1]))
print('natural extend linear:', np.allclose(O,R))
for mode in ['clip','na','zero','raise','extend']:
    try:
        ro = cr(xo, df=4, _state=dict(st), extrapolation=mode); print(mode, np.column_stack([ro[k] for k in sorted(ro)])[0])
    except Exception as e: print(mode, 'EXC', type(e).__name__)
# C13
for it in range(200):
    n=int(rng.integers(2,30)); x = rng.normal(size=n)*10.0**rng.integers(-3,4) + rng.normal()*10.0**rng.integers(-2,5)
    st={}; s = scale(x, _state=st); 
    if not (abs(s.mean())<1e-8 and abs(s.std(ddof=1)-1)<1e-8): print('scale bad', n, s.mean(), s.std(ddof=1), x[:3])
    for d in [0,1]:
        st={}; s = scale(x, ddof=d, _state=st)
        if n-d>0 and not abs(s.std(ddof=d)-1)<1e-8: print('scale ddof bad', d)
    c = center(x, _state={}); 
    if abs(c.mean())>1e-8*max(1,abs(x).max()): print('center bad', c.mean())
    deg = int(rng.integers(1, min(n,6)))
    st={}; P = np.asarray(poly(x, deg, _state=st))
    G = P.T@P
    raw = np.column_stack([x**k for k in range(0,deg+1)])
    okP = np.allclose(G, np.eye(deg), atol=1e-6) and np.allclose(P.sum(axis=0), 0, atol=1e-6)
    r1 = np.linalg.matrix_rank(np.column_stack([np.ones(n), P])); 
    if not okP: print('poly bad', n, deg, np.round(G,3), P.sum(axis=0))
print({k: (TRANSFORMS[k](2.0) if callable(TRANSFORMS[k]) else None) for k in ['log','log2','log10','exp','exp2','exp10']})
