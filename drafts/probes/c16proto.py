import sys, os; sys.path.insert(0, os.environ.get('REPO','/repo'))
import random, collections, warnings; warnings.simplefilter("ignore")
import numpy as np
from formulaic.utils.constraints import LinearConstraints
seed=int(sys.argv[1]) if len(sys.argv)>1 else 0
rng=random.Random(seed); stats=collections.Counter(); shown=0
NAMES=['x','y','z','w w','x[T.a]','a:b','C(A)[T.u]']
def ref(n): return n if n.isidentifier() else f'`{n}`'
# expression tree: ('var',i) ('num',v) ('add',l,r) ('sub',l,r) ('mul',l,r) ('div',l,r) ('neg',e) ('pos',e)
def gen(d, linear=True):
    if d<=0 or rng.random()<0.3:
        return ('var', rng.randrange(len(NAMES))) if rng.random()<0.6 else ('num', rng.choice([0,1,2,3,0.5,2.5,10,1.25]))
    op=rng.choice(['add','sub','mul','div','neg','pos','add','sub'])
    if op in('neg','pos'): return (op, gen(d-1))
    if op=='mul':
        a=gen(d-1); b=gen_const(d-1)
        return ('mul',a,b) if rng.random()<0.5 else ('mul',b,a)
    if op=='div':
        return ('div', gen(d-1), gen_const_nonzero(d-1))
    return (op, gen(d-1), gen(d-1))
def gen_const(d):
    if d<=0 or rng.random()<0.5: return ('num', rng.choice([0,1,2,3,0.5,2.5,10]))
    op=rng.choice(['add','sub','mul','neg'])
    if op=='neg': return ('neg', gen_const(d-1))
    return (op, gen_const(d-1), gen_const(d-1))
def gen_const_nonzero(d):
    for _ in range(20):
        c=gen_const(d)
        if abs(ev(c, None))>1e-9: return c
    return ('num',2)
def ev(e, x):
    t=e[0]
    if t=='var': return x[e[1]]
    if t=='num': return float(e[1])
    if t=='neg': return -ev(e[1],x)
    if t=='pos': return ev(e[1],x)
    a=ev(e[1],x); b=ev(e[2],x)
    return {'add':a+b,'sub':a-b,'mul':a*b,'div':a/b if t=='div' else None}[t] if t!='div' else a/b
PREC={'add':1,'sub':1,'mul':2,'div':2}
def sp(): return rng.choice(['',' ','  '])
def render(e, parent=None, right=False):
    t=e[0]
    if t=='var': return ref(NAMES[e[1]])
    if t=='num': return repr(e[1]) if not isinstance(e[1],int) else str(e[1])
    if t in('neg','pos'):
        return '('+('-' if t=='neg' else '+')+sp()+render(e[1],'un')+')'   # always parenthesised unary
    s=render(e[1],t,False)+sp()+{'add':'+','sub':'-','mul':'*','div':'/'}[t]+sp()+render(e[2],t,True)
    if parent=='un' or (parent in PREC and (PREC[t]<PREC[parent] or (PREC[t]==PREC[parent] and right))): s='('+sp()+s+sp()+')'
    return s
for it in range(int(sys.argv[2]) if len(sys.argv)>2 else 2000):
    ncon=rng.randint(1,3); cons=[]
    for _ in range(ncon):
        l=gen(rng.randint(1,4)); r=gen(rng.randint(0,3)) if rng.random()<0.6 else None
        cons.append((l,r))
    strs=[render(l)+(sp()+'='+sp()+render(r) if r is not None else '') for l,r in cons]
    form=rng.choice(['str','list','dict'])
    try:
        if form=='str': lc=LinearConstraints.from_spec((sp()+','+sp()).join(strs), NAMES); vals=[0]*ncon
        elif form=='list': lc=LinearConstraints.from_spec(strs, NAMES); vals=[0]*ncon
        else:
            vals=[rng.choice([0,1,-2.5,3]) for _ in cons]
            keys=[render(l)+(sp()+'='+sp()+render(r) if r is not None else '') for l,r in cons]
            if len(set(keys))<len(keys): continue
            lc=LinearConstraints.from_spec(dict(zip(keys,vals)), NAMES)
    except Exception as e:
        stats['EXC_'+type(e).__name__]+=1
        if shown<10: shown+=1; print('EXC', form, strs, type(e).__name__, str(e)[:100])
        continue
    A=np.asarray(lc.constraint_matrix,float); b=np.asarray(lc.constraint_values,float)
    ok = A.shape==(ncon,len(NAMES)) and b.shape==(ncon,)
    pts=[np.zeros(len(NAMES))]+[np.eye(len(NAMES))[i] for i in range(len(NAMES))]+[np.array([rng.uniform(-3,3) for _ in NAMES])]
    if ok:
        for x in pts:
            for i,(l,r) in enumerate(cons):
                expv = ev(l,x)-(ev(r,x) if r is not None else 0.0) - vals[i]
                got = A[i]@x - b[i]
                if not np.isclose(got, expv, rtol=1e-9, atol=1e-9): ok=False
    stats['ok' if ok else 'BAD']+=1
    if not ok and shown<10: shown+=1; print('BAD', form, strs, vals, A.tolist(), b.tolist())
# negative class
neg=0
for s in ['x * y', 'x / y', '1 / x', '(x+1)*(y+1)', 'x*x', '2/(x-x)', 'x * (y / 2)', '(x + y) * z']:
    try: LinearConstraints.from_spec(s, NAMES); print('ACCEPTED nonlinear', s)
    except Exception as e: neg+=1
print(dict(stats), 'nonlinear rejected', neg)
