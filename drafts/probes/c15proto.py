import sys, os; sys.path.insert(0, os.environ.get('REPO','/repo'))
import random, collections, warnings, ast, re, tokenize as pytok, io; warnings.simplefilter("ignore")
from formulaic import Formula
seed=int(sys.argv[1]) if len(sys.argv)>1 else 0
rng=random.Random(seed); stats=collections.Counter(); shown=0
NAMES=['x','y','z_1','np.pi','df.col']
def gexpr(d):
    r=rng.random()
    if d<=0 or r<0.25:
        return rng.choice(NAMES+['1','2.5','1e3','0x10',"'s'",'"q"','True','None',"'a)b'",'"}{"',"'it\\'s'",'[1, 2]','(1, 2)','{1: 2}'])
    c=rng.choice(['bin','call','attr','sub','unary','cmp','ifexp','kw','paren','method'])
    if c=='bin': return f"{gexpr(d-1)} {rng.choice(['+','-','*','/','**','%','//','&','|','^','<<','@'])} {gexpr(d-1)}"
    if c=='call': return f"f({', '.join(gexpr(d-1) for _ in range(rng.randint(0,3)))})"
    if c=='attr': return f"({gexpr(d-1)}).real"
    if c=='sub': return f"({gexpr(d-1)})[{gexpr(d-1)}]"
    if c=='unary': return f"{rng.choice(['-','+','~','not '])}{gexpr(d-1)}"
    if c=='cmp': return f"{gexpr(d-1)} {rng.choice(['<','<=','==','!=','is','is not','in','not in'])} {gexpr(d-1)}"
    if c=='ifexp': return f"({gexpr(d-1)} if {gexpr(d-1)} else {gexpr(d-1)})"
    if c=='kw': return f"g({gexpr(d-1)}, key={gexpr(d-1)})"
    if c=='paren': return f"(({gexpr(d-1)}))"
    return f"np.log({gexpr(d-1)}).clip({gexpr(d-1)})"
def respace(src):
    """re-render python source token by token with random whitespace (no newlines), random quote style for simple strings"""
    toks=[t for t in pytok.generate_tokens(io.StringIO(src).readline) if t.type not in (pytok.NEWLINE, pytok.ENDMARKER, pytok.NL)]
    out=''
    for i,t in enumerate(toks):
        s=t.string
        if t.type==pytok.STRING and rng.random()<0.5:
            v=ast.literal_eval(s)
            if isinstance(v,str) and '"' not in v and "'" not in v and '\\' not in v: s=('"'+v+'"') if s[0]=="'" else ("'"+v+"'")
        sep = rng.choice(['',' ','  '])
        if out and (out[-1].isalnum() or out[-1]=='_') and (s[0].isalnum() or s[0]=='_'): sep=' '
        if out and out[-1] in '*/<>=!&|' and s[0] in '*/<>=!&|': sep=' '   # keep operator tokens apart
        if out and out[-1] in '+-' and s[0] in '+-': sep=' '
        if out and out[-1]=='.' or s=='.':  # attribute dots: no space issues in python, but '1 .real' vs '1.real' -> keep tight unless safe
            sep=''
        out+=sep+s
    return out
for it in range(int(sys.argv[2]) if len(sys.argv)>2 else 1500):
    e=gexpr(rng.randint(1,3))
    try: ast.parse(e, mode='eval')
    except SyntaxError: stats['gen_invalid']+=1; continue
    try:
        v2=respace(e); 
        if ast.dump(ast.parse(v2.strip(),mode='eval'))!=ast.dump(ast.parse(e,mode='eval')): stats['respace_changed_ast']+=1; continue
    except Exception as ex:
        stats['respace_fail_'+type(ex).__name__+':'+str(ex)[:40]]+=1; continue
    canon=ast.unparse(ast.parse(e,mode='eval'))
    for wrap in ['{%s}', 'h(%s)']:
        try:
            fa=Formula('0 + '+wrap%e); fb=Formula('0 + '+wrap%v2)
            ea=[f.expr for t in fa for f in t.factors]; eb=[f.expr for t in fb for f in t.factors]
            expc = canon if wrap=='{%s}' else ast.unparse(ast.parse('h(%s)'%e, mode='eval'))
            if ea==eb==[expc]: stats['ok']+=1
            else:
                stats['BAD']+=1
                if shown<12: shown+=1; print('BAD', wrap, repr(e), repr(v2), ea, eb, expc)
        except Exception as ex:
            stats['EXC_'+type(ex).__name__]+=1
            if shown<12: shown+=1; print('EXC', wrap, repr(e), '|', repr(v2), type(ex).__name__, str(ex)[:100].replace('\n',' '))
print(dict(stats))
