import warnings; warnings.simplefilter("ignore")
import numpy as np, pandas as pd, itertools
from formulaic.transforms.contrasts import *
N=0
def t(desc, fn):
    try:
        r = fn(); 
        global N; N+=1
        if r is not True: print(desc, '->', r)
    except Exception as e:
        print(desc, 'EXC', type(e).__name__, str(e)[:150])
cs = {'treat': TreatmentContrasts(), 'sas': SASContrasts(), 'sum': SumContrasts(), 'helm': HelmertContrasts(), 'helm_f': HelmertContrasts(reverse=False), 'helm_s': HelmertContrasts(scale=True), 'helm_fs': HelmertContrasts(reverse=False, scale=True), 'diff': DiffContrasts(), 'diff_f': DiffContrasts(backward=False), 'poly': PolyContrasts()}
for n in range(1, 8):
    levels = [f'l{i}' for i in range(n)]
    allc = dict(cs)
    for b in levels: allc[f'treat_{b}'] = TreatmentContrasts(base=b); 
    allc['poly_sc'] = PolyContrasts(scores=[float(i*i+1) for i in range(n)])
    for name, c in allc.items():
        def chk():
            M = c.get_coding_matrix(levels, reduced_rank=True)
            assert M.shape == (n, n-1), M.shape
            full = np.hstack([np.ones((n,1)), M.values])
            assert np.linalg.matrix_rank(full) == n
            F = c.get_coding_matrix(levels, reduced_rank=False)
            assert np.allclose(F.values, np.eye(n))
            K = c.get_coefficient_matrix(levels, reduced_rank=True)
            assert np.allclose(K.values @ full, np.eye(n))
            if not name.startswith(('treat','sas')):
                assert np.allclose(M.values.sum(axis=0), 0), M.values.sum(axis=0)
            return True
        t(f'{name} n={n} dense', chk)
        def chks():
            M = c.get_coding_matrix(levels, reduced_rank=True)
            Ms = c.get_coding_matrix(levels, reduced_rank=True, sparse=True)
            assert np.allclose(Ms.toarray(), M.values), (type(Ms), )
            Fs = c.get_coding_matrix(levels, reduced_rank=False, sparse=True)
            assert np.allclose(Fs.toarray(), np.eye(n))
            Ks = c.get_coefficient_matrix(levels, reduced_rank=True, sparse=True)
            K = c.get_coefficient_matrix(levels, reduced_rank=True)
            assert np.allclose(Ks.toarray() if hasattr(Ks,'toarray') else Ks, K.values)
            return True
        t(f'{name} n={n} sparse', chks)
        def chka():
            data = pd.Series(levels + levels[::-1] + [levels[0]])
            for out in ['pandas','numpy','sparse']:
                for rr in [True, False]:
                    enc = encode_contrasts(data, c, reduced_rank=rr, output=out)
                    E = enc.toarray() if out=='sparse' else np.asarray(enc, dtype=float)
                    D = pd.get_dummies(data).values.astype(float)
                    M = c.get_coding_matrix(levels, reduced_rank=rr).values
                    assert E.shape == (len(data), M.shape[1]), (out, rr, E.shape, M.shape)
                    assert np.allclose(E, D @ M), (out, rr)
            return True
        t(f'{name} n={n} apply', chka)
print("checks run", N)
