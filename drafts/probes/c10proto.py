import sys, os; sys.path.insert(0, os.environ.get('REPO','/repo'))
import random, collections, warnings, itertools; warnings.simplefilter("ignore")
import numpy as np, pandas as pd
from formulaic import Formula, model_matrix
from formulaic.parser.types import Term
seed=int(sys.argv[1]) if len(sys.argv)>1 else 0
rng=random.Random(seed); nprng=np.random.default_rng(seed); stats=collections.Counter(); shown=0
def note(k, msg=None):
    global shown
    stats[k]+=1
    if msg and shown<12: shown+=1; print(k, msg)
for it in range(int(sys.argv[2]) if len(sys.argv)>2 else 600):
    n=12
    levels={'A':rng.randint(1,3),'B':rng.randint(1,3),'G':rng.randint(2,3)}
    d={c: pd.Categorical([f'{c.lower()}{rng.randrange(k)}' for _ in range(n)], categories=[f'{c.lower()}{i}' for i in range(k)]) for c,k in levels.items()}
    for v in 'xyz': d[v]=nprng.normal(size=n)
    df=pd.DataFrame(d)
    atoms={'A':['A'],'B':['B'],'G':['G'],'x':['x'],'y':['y'],'z':['z'],'poly(x, 2)':['x'],'log(z ** 2)':['z'],'bs(y, df=3)':['y'], 'C(B, contr.sum)':['B'], 'center(x)':['x'], 'I(x * y)':['x','y']}
    # one encoding per variable to keep it sane
    chosen=rng.sample(list(atoms), rng.randint(2,5))
    terms=[]
    for _ in range(rng.randint(1,5)):
        fs=rng.sample(chosen, rng.randint(1,min(3,len(chosen))))
        terms.append(fs)
    uniq=[]; seen=set()
    for t in terms:
        if frozenset(t) not in seen: seen.add(frozenset(t)); uniq.append(t)
    terms=uniq
    icpt=rng.random()<0.7
    f=' + '.join((['1'] if icpt else ['0'])+[':'.join(t) for t in terms])
    out=rng.choice(['pandas','numpy','sparse'])
    try: mm=model_matrix(f, df, output=out)
    except Exception as e: note('EXC_'+type(e).__name__, f+' '+str(e)[:80]); continue
    ms=mm.model_spec; ncol=mm.shape[1]
    M=mm.toarray() if hasattr(mm,'toarray') else np.asarray(mm,float)
    ok=True
    if out=='pandas' and list(mm.columns)!=list(ms.column_names): ok=False; note('BAD_names', f)
    if len(ms.column_names)!=ncol: ok=False; note('BAD_ncol', f)
    # term_indices contiguous/disjoint/in order/cover
    cat=[i for idx in ms.term_indices.values() for i in idx]
    if cat!=list(range(ncol)): ok=False; note('BAD_cover', f'{f} {ms.term_indices}')
    if [str(t) for t in ms.term_indices]!=[str(t) for t in ms.formula]: ok=False; note('BAD_termorder', f)
    for t,idx in ms.term_indices.items():
        sl=ms.term_slices[t]
        if list(range(*sl.indices(ncol)))!=idx: ok=False; note('BAD_slice', f'{f} {t} {sl} {idx}')
        # lookups
        for key,kind in [(t,'obj'),(str(t),'printed')]:
            try:
                a=ms.term_indices[key]; b=ms.get_slice(key)
                if a!=idx or list(range(*b.indices(ncol)))!=idx: ok=False; note('BAD_lookup_'+kind, f'{f} {key!r}')
            except (KeyError, ValueError) as e:
                fs=[x.expr for x in t.factors]
                if kind=='printed' and len(fs)>=2 and fs!=sorted(fs): note('KF_K1')
                else: ok=False; note('BAD_lookup_exc_'+kind, f'{f} {key!r} {type(e).__name__}')
    for j,name in enumerate(ms.column_names):
        try:
            if ms.get_column_indices(name)!=[j] or ms.column_indices[name]!=j: ok=False; note('BAD_colidx', f'{f} {name}')
            sl=ms.get_slice(name)
            # a column name may coincide with a term's printed form (e.g. 'x'); then slice is the term's
            if list(range(*sl.indices(ncol)))!=[j]:
                if not any(str(t)==name for t in ms.term_indices): ok=False; note('BAD_colslice', f'{f} {name}')
        except Exception as e: ok=False; note('BAD_colidx_exc', f'{f} {name} {e}')
    # variable indices
    expv=collections.defaultdict(set)
    for t,idx in ms.term_indices.items():
        for fac in t.factors:
            for v in atoms.get(fac.expr, []): expv[v].update(idx)
    for v in 'ABGxyz':
        got=ms.variable_indices.get(v)
        if (sorted(expv[v]) if v in expv else None)!=(got if got is not None else None):
            if not (v in expv and not expv[v] and got in (None,[])): ok=False; note('BAD_varidx', f'{f} {v} got {got} exp {sorted(expv[v])}')
    # subset
    sub=rng.sample(list(ms.formula), rng.randint(1,len(ms.formula)))
    try:
        ss=ms.subset(sub)
        sm=ss.get_model_matrix(df)
        S=sm.toarray() if hasattr(sm,'toarray') else np.asarray(sm,float)
        idx=[i for t in ss.formula for i in ms.term_indices[t]]
        if S.shape[1]!=len(idx) or not np.allclose(S, M[:,idx], equal_nan=True) or list(ss.column_names)!=[ms.column_names[i] for i in idx]: ok=False; note('BAD_subset', f'{f} {sub}')
    except Exception as e: ok=False; note('BAD_subset_exc', f'{f} {sub} {type(e).__name__} {str(e)[:80]}')
    note('ok' if ok else 'case_bad')
print(dict(stats))
