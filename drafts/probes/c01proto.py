import random, sys, warnings, collections, itertools
warnings.simplefilter("ignore")
import os
sys.path.insert(0, os.environ.get("REPO","/repo"))
from formulaic import Formula
from formulaic.parser import DefaultFormulaParser
from formulaic.errors import FormulaParsingError
from formulaic.utils.structured import Structured

# ---- reference model: ordered set of terms; term = tuple of distinct factors (first-appearance), identity = sorted tuple
def key(t): return tuple(sorted(t))
class OS:
    def __init__(self, items=()):
        self.d = {}
        for t in items: self.d.setdefault(key(t), t)
    def __iter__(self): return iter(self.d.values())
    def __len__(self): return len(self.d)
    def union(self, o): return OS(list(self)+list(o))
    def minus(self, o): 
        ks = set(o.d); return OS([t for t in self if key(t) not in ks])
def tmul(a,b): return tuple(dict.fromkeys(a+b))
def colon(X,Y): return OS([tmul(x,y) for x in X for y in Y])
def star(X,Y): return X.union(Y).union(colon(X,Y))
class ExpectReject(Exception): pass
def slash(X,Y):
    if len(X)==0: raise ExpectReject('empty parent')
    common = ()
    for x in X: common = tmul(common, x)
    return X.union(OS([tmul(common,y) for y in Y]))
def power(X,n):
    R = X
    for _ in range(n-1): R = colon(R,X)
    return R

# ---- AST generation. nodes: ('name',s) ('one',) ('zero',) ('scaled',k,name) ('paren',sumchain) ('bin',op,l,r) ('pow',sym,sumchain,n)
# sumchain: list of (signs, item)
NAMES = ['a','b','c','d','e','x1','`a b`','f(a)','{a+b}','log(x)']
class Gen:
    def __init__(self, rng, allow_U=False): self.rng=rng; self.allow_U=allow_U; self.usedU=False; self.k=0
    def atom(self):
        r=self.rng.random()
        if r<0.75: return ('name', self.rng.choice(NAMES))
        if r<0.82: 
            self.k+=1; return ('scaled', self.rng.choice(['2','2.5','0.5','3']), f's{self.k}')
        return ('paren', self.sumchain(self.depth-1)) if self.depth>0 else ('name', self.rng.choice(NAMES))
    def prod(self, d):
        self.depth=d
        if d<=0 or self.rng.random()<0.35: return self.atom()
        r=self.rng.random()
        if r<0.2: return ('pow', self.rng.choice(['**','^']), self.sumchain(d-1, small=True), self.rng.choice([1,2,2,3]))
        op=self.rng.choice([':',':','*','/','%in%'])
        l=self.prod(d-1); rr=self.prod(d-1)
        signs=''
        if self.allow_U and self.rng.random()<0.15:
            signs=''.join(self.rng.choice('+-') for _ in range(self.rng.randint(1,3))); self.usedU=True
        return ('bin',op,l,rr,signs)
    def sumchain(self, d, small=False, top=False):
        n=self.rng.randint(1, 2 if small else 4)
        items=[]
        for i in range(n):
            if i==0: signs=''.join(self.rng.choice('+-') for _ in range(self.rng.choice([0,0,0,1,2])))
            else: signs=''.join(self.rng.choice('+-') for _ in range(self.rng.choice([1,1,1,2,3])))
            r=self.rng.random()
            if top and r<0.12: item=('one',)
            elif top and r<0.2: item=('zero',)
            else: item=self.prod(d)
            items.append((signs,item))
        return items
def sp(rng): return rng.choice(['',' ','  '])
def render_signs(s, rng): return sp(rng).join(s)
def render(node, rng):
    t=node[0]
    if t=='name': return node[1]
    if t=='one': return '1'
    if t=='zero': return '0'
    if t=='scaled': return f'{node[1]}{sp(rng)}:{sp(rng)}{node[2]}'
    if t=='paren': return '('+sp(rng)+render_chain(node[1],rng)+sp(rng)+')'
    if t=='pow': return '('+render_chain(node[2],rng)+')'+sp(rng)+node[1]+sp(rng)+str(node[3])
    if t=='bin':
        l=render(node[2],rng); r=render(node[3],rng)
        # parenthesise children to force the generated structure unless testing precedence explicitly
        return l+sp(rng)+node[1]+sp(rng)+render_signs(node[4],rng)+sp(rng)+r
def render_chain(chain, rng):
    out=''
    for i,(signs,item) in enumerate(chain):
        out += (sp(rng) if i else '') + render_signs(signs,rng) + sp(rng) + render(item,rng)
    return out
PREC={':':300,'*':200,'/':200,'%in%':200}
def needs_paren(child, parent_op, side):
    # we render without extra parens; so the reference must evaluate with the documented precedence. Simplest: generate fully,
    # then re-parse our own rendering with a tiny precedence-climbing reference parser. To avoid writing two parsers, we instead
    # force structure: wrap bin children that are bins of lower-or-equal precedence (right side) / lower (left side) in parens.
    pass
def fix_structure(node):
    """insert explicit parens where needed so that rendering denotes the generated tree under documented precedence/left-assoc"""
    t=node[0]
    if t=='bin':
        op=node[1]; l=fix_structure(node[2]); r=fix_structure(node[3])
        def wrap(n): return ('paren',[('',n)])
        if l[0]=='bin' and PREC[l[1]]<PREC[op]: l=wrap(l)
        if l[0]=='scaled' and PREC[op]>=300: pass
        if r[0]=='bin' and PREC[r[1]]<=PREC[op]: r=wrap(r)
        if r[0]=='scaled' and op==':' : r=wrap(r) if False else r
        # scaled is k:name, i.e. a ':' product; treat as bin ':' for precedence purposes
        if l[0]=='scaled' and PREC[op]>300: l=wrap(l)
        if r[0]=='scaled' and PREC[op]>=300: r=wrap(r)
        # pow binds tighter than everything: fine. 
        return ('bin',op,l,r,node[4])
    if t=='paren': return ('paren',[(s,fix_structure(i)) for s,i in node[1]])
    if t=='pow': return ('pow',node[1],[(s,fix_structure(i)) for s,i in node[2]],node[3])
    return node
def parity(signs): return '-' if signs.count('-')%2 else '+'
def ev(node):
    t=node[0]
    if t=='name': return OS([(node[1],)])
    if t=='one': return OS([('1',)])
    if t=='scaled': return OS([(node[1],node[2])])
    if t=='paren': return ev_chain(node[1], None)
    if t=='pow': return power(ev_chain(node[2],None), node[3])
    if t=='bin':
        L=ev(node[2]); R=ev(node[3])
        if node[4]: R = R if parity(node[4])=='+' else OS()
        op=node[1]
        if op==':': return colon(L,R)
        if op=='*': return star(L,R)
        if op=='/': return slash(L,R)
        if op=='%in%': return slash(R,L)
def ev_chain(chain, acc):
    acc = OS() if acc is None else acc
    for signs,item in chain:
        s = parity(signs) if signs else '+'
        if item[0]=='zero':
            item=('one',); s = '-' if s=='+' else '+'
        v=ev(item)
        acc = acc.union(v) if s=='+' else acc.minus(v)
    return acc
def degree(t): return sum(1 for f in t if not f.replace('.','',1).isdigit())
def finish(os_, ordering='degree'):
    ts=[key(t) for t in os_]
    if ordering=='degree': ts=sorted(ts, key=lambda k: degree(k))
    return ts
def norm_expr(e):
    return e
def lib_terms(form):
    def conv(f): return [tuple(sorted(x.expr for x in t.factors)) for t in f]
    if isinstance(form, Structured): 
        d = form._to_dict()
        def rec(o):
            if isinstance(o, dict): return {k:rec(v) for k,v in o.items()}
            if isinstance(o, tuple): return tuple(rec(v) for v in o)
            return conv(o)
        return rec(d)
    return conv(form)

rng=random.Random(int(sys.argv[1]) if len(sys.argv)>1 else 0)
N=int(sys.argv[2]) if len(sys.argv)>2 else 3000
stats=collections.Counter(); shown=0
normname = {'`a b`':'a b','{a+b}':'a + b'}
def nm(k): return tuple(sorted(normname.get(f,f) for f in k))
for it in range(N):
    allowU = rng.random()<0.2
    g=Gen(rng, allow_U=allowU)
    nparts = rng.choice([1,1,1,2,3]); has_lhs = rng.random()<0.3
    lhs = fix_structure(('paren', g.sumchain(2)))[1] if has_lhs else None
    parts=[ [(s,fix_structure(i)) for s,i in g.sumchain(3, top=True)] for _ in range(nparts)]
    s = (render_chain(lhs,rng)+sp(rng)+'~'+sp(rng) if has_lhs else ('~' if rng.random()<0.1 else '')) + (sp(rng)+'|'+sp(rng)).join(render_chain(p,rng) for p in parts)
    icpt = rng.random()<0.7
    parser = DefaultFormulaParser(include_intercept=icpt)
    try:
        exp_parts=[finish(ev_chain(p, OS([('1',)]) if icpt else None)) for p in parts]
        if has_lhs: ev_chain(lhs,None)
        expect_reject=False
    except ExpectReject:
        expect_reject=True; exp_parts=[[] for p in parts]
    exp_rhs = exp_parts[0] if nparts==1 else tuple(exp_parts)
    if expect_reject: exp = None
    elif has_lhs: exp = {'lhs': finish(ev_chain(lhs,None)), 'rhs': exp_rhs}
    elif nparts>1: exp={'root': exp_rhs}
    else: exp = exp_rhs
    def normalize(o):
        if isinstance(o, dict): return {k:normalize(v) for k,v in o.items()}
        if isinstance(o, tuple): return tuple(normalize(v) for v in o)
        return [nm(k) for k in o]
    exp = normalize(exp) if exp is not None else None
    try:
        got = normalize(lib_terms(Formula(s, _parser=parser)))
        if expect_reject: stats['ACCEPTED_BUT_EXPECT_REJECT']+=1; print('ACC', repr(s)); continue
        if got==exp: stats['equal'+('_U' if g.usedU else '')]+=1
        else:
            stats['MISMATCH'+('_U' if g.usedU else '')]+=1
            if shown<25: shown+=1; print('MISMATCH', 'U' if g.usedU else 'K', repr(s), 'icpt',icpt, '\n   got', got, '\n   exp', exp)
    except FormulaParsingError as e:
        if expect_reject: stats['rejected_expected']+=1; continue
        stats['rejected'+('_U' if g.usedU else '_K')]+=1
        if not g.usedU and shown<25: shown+=1; print('REJECT-K', repr(s), str(e)[:80].replace('\n',' '))
    except Exception as e:
        stats['escape_'+type(e).__name__]+=1
        if shown<25: shown+=1; print('ESCAPE', repr(s), type(e).__name__, str(e)[:80])
print(dict(stats))
