import warnings, itertools, random, sys; warnings.simplefilter("ignore")
import pandas as pd, numpy as np
from formulaic import Formula, model_matrix
from formulaic.materializers.base import FormulaMaterializer
from formulaic.materializers.types import ScopedTerm, ScopedFactor
events=[]
orig = FormulaMaterializer._simplify_scoped_terms.__func__
depth=[0]
def wrapped(cls, scoped_terms):
    scoped_terms = list(scoped_terms)
    depth[0]+=1
    try: out = orig(cls, scoped_terms)
    finally: depth[0]-=1
    if depth[0]==0:
        def expand(st):
            opts=[]
            for f in st.factors:
                if f.factor.metadata.spans_intercept and not f.reduced: opts.append([ScopedFactor(f.factor, reduced=True), None])
                else: opts.append([f])
            return [frozenset((x.factor.expr, x.reduced) for x in prod if x is not None) for prod in itertools.product(*opts)]
        exp_in = [frozenset((x.factor.expr, x.reduced) for x in st.factors) for st in scoped_terms]
        exp_out = [e for st in out for e in expand(st)]
        ok = sorted(map(sorted, exp_in)) == sorted(map(sorted, exp_out)) and len(set(exp_out))==len(exp_out)
        events.append(ok)
        if not ok: print('P5 BREACH', scoped_terms, '->', list(out))
    return out
FormulaMaterializer._simplify_scoped_terms = classmethod(wrapped)
rng = random.Random(0); nprng=np.random.default_rng(0)
for it in range(400):
    ncat=rng.randint(1,3); nnum=rng.randint(0,2)
    levels={n:rng.randint(1,4) for n in 'ABD'[:ncat]}
    rows=list(itertools.product(*[range(k) for k in levels.values()]))*3
    d={n: pd.Categorical([f'{n}{r[i]}' for r in rows]) for i,n in enumerate(levels)}
    for j in range(nnum): d['xy'[j]]=nprng.normal(size=len(rows))
    df=pd.DataFrame(d); vars_=list(d)
    allsub=[s for r in range(1,len(vars_)+1) for s in itertools.combinations(vars_,r)]
    terms=rng.sample(allsub, rng.randint(1,min(6,len(allsub))))
    f=' + '.join([rng.choice(['1','0'])]+[':'.join(rng.sample(t,len(t))) for t in terms])
    model_matrix(Formula(f,_ordering=rng.choice(['none','degree'])), df)
print('events', len(events), 'all ok', all(events))
