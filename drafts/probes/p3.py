import sys; sys.path.insert(0, "/tmp/probe/s2")
import warnings, random, collections, sys, traceback
warnings.simplefilter("ignore")
from formulaic import Formula
from formulaic.parser import DefaultFormulaParser
from formulaic.errors import FormulaParsingError
random.seed(int(sys.argv[1]) if len(sys.argv)>1 else 0)
atoms = ['a','b','c','1','0','2','2.5','`x y`','f(a)','{a+b}','(',')','[',']','+','-','*','/',':','**','^','%in%','~','|','.',' ','  ','`','"',"'",'{','}','%',',','x1','I(','log(','))','\\','é','\t','\n','.5','1e3','a.b','$','&','=','!','@','#','<','>','?',';','_','0x','--','++','+-', '**2', '**0','(a-a)','(0)','()', '``']
parsers = [DefaultFormulaParser(), DefaultFormulaParser(include_intercept=False)] + [DefaultFormulaParser(feature_flags=f) for f in [set(),{'twosided'},{'multipart'},{'multistage'},{'twosided','multistage'},{'multipart','multistage'},{'twosided','multipart','multistage'}]]
ctx = {"__formulaic_variables_available__": ["a","x","z"]}
esc = collections.Counter(); examples = {}
N=int(sys.argv[2]) if len(sys.argv)>2 else 20000
ok=rej=0
for it in range(N):
    s = ''.join(random.choice(atoms) for _ in range(random.randint(1,8)))
    p = random.choice(parsers)
    try:
        p.get_terms(s, context=ctx); ok+=1
    except FormulaParsingError: rej+=1
    except SyntaxError: rej+=1
    except RecursionError as e:
        esc['RecursionError']+=1; examples.setdefault('RecursionError', s)
    except Exception as e:
        tb = traceback.extract_tb(e.__traceback__)[-1]
        key=(type(e).__name__, tb.filename.split('/')[-1], tb.name, tb.lineno)
        esc[key]+=1; examples.setdefault(key, (s, p.include_intercept, str(p.feature_flags)))
print('ok',ok,'rej',rej)
for k,v in esc.most_common(): print(v,k,repr(examples[k]))
