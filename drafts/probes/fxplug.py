# throw-away pytest plugin: attach P4 (column product) and P6 (row conservation) probes to the real classes
import sys, functools, itertools, json, atexit
import numpy as np
EVENTS = {'P4':0,'P4_breach':[], 'P6':0, 'P6_breach':[], 'P3':0, 'P3_breach':[]}
def dense(v):
    if hasattr(v,'toarray'): return np.asarray(v.toarray(), dtype=float).reshape(-1)
    if hasattr(v, 'to_numpy'): return np.asarray(v.to_numpy(), dtype=float).reshape(-1)
    return np.asarray(v, dtype=float).reshape(-1)
def attach():
    from formulaic.materializers import base, pandas as pdm, narwhals as nwm
    def wrap_cols(cls):
        orig = cls.__dict__['_get_columns_for_term']
        @functools.wraps(orig)
        def w(self, factors, spec, scale=1):
            snap=[dict(f) for f in factors]
            out = orig(self, factors, spec=spec, scale=scale)
            EVENTS['P4']+=1
            try:
                names=[]; exp={}
                for prod in itertools.product(*(list(f.items()) for f in reversed(snap))):
                    prod=prod[::-1]; nm=':'.join(str(p[0]) for p in prod)
                    names.append(nm)
                    val = scale
                    for p in prod: val = val*dense(p[1])
                    exp[nm]=val
                if list(out)!=names: EVENTS['P4_breach'].append(('names', list(out), names))
                else:
                    for nm in names:
                        if not np.allclose(dense(out[nm]), exp[nm], equal_nan=True, rtol=1e-9, atol=1e-12):
                            EVENTS['P4_breach'].append(('values', nm)); break
            except Exception as e:
                EVENTS['P4_breach'].append(('probe-error', type(e).__name__, str(e)[:100]))
            return out
        cls._get_columns_for_term = w
    for cls in (base.FormulaMaterializer, pdm.PandasMaterializer, nwm.NarwhalsMaterializer): wrap_cols(cls)
    def wrap_combine(cls):
        orig = cls.__dict__['_combine_columns']
        @functools.wraps(orig)
        def w(self, cols, spec, drop_rows):
            out = orig(self, cols, spec=spec, drop_rows=drop_rows)
            EVENTS['P6']+=1
            try:
                exp = self.nrows - len(drop_rows)
                if out.shape[0]!=exp: EVENTS['P6_breach'].append(('combine', out.shape, exp))
                for nm, v in cols:
                    if v.shape[0]!=exp: EVENTS['P6_breach'].append(('col', nm, v.shape, exp)); break
            except Exception as e:
                EVENTS['P6_breach'].append(('probe-error', type(e).__name__, str(e)[:100]))
            return out
        cls._combine_columns = w
    for cls in (pdm.PandasMaterializer, nwm.NarwhalsMaterializer): wrap_combine(cls)
    # P3 token spans
    import importlib; tkmod = importlib.import_module('formulaic.parser.algos.tokenize')
    import formulaic.parser.parser as pp, formulaic.utils.constraints as cc, formulaic.parser.types.formula_parser as fp
    orig_t = tkmod.tokenize
    def tok(formula, *a, **k):
        last=-1
        for t in orig_t(formula, *a, **k):
            EVENTS['P3']+=1
            s,e=t.source_start,t.source_end
            if not (s is not None and e is not None and 0<=s<=e<len(formula) and s>last):
                EVENTS['P3_breach'].append((formula, t.token, s, e, last))
            else:
                seg=formula[s:e+1]
                it=iter(seg)
                if not all(ch in it for ch in t.token): EVENTS['P3_breach'].append(('text', formula, t.token, seg))
                last=e
            yield t
    tkmod.tokenize = tok; pp.tokenize = tok; cc.tokenize = tok
def pytest_configure(config): attach()
def pytest_sessionfinish(session, exitstatus):
    out={k:(v if isinstance(v,int) else v[:10]) for k,v in EVENTS.items()}
    out.update({k+'_n':len(v) for k,v in EVENTS.items() if isinstance(v,list)})
    import os
    with open(f'/tmp/probe/plug_{os.getpid()}.json','w') as fh: json.dump(out, fh, default=str)
