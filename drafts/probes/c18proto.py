import sys, os; sys.path.insert(0, os.environ.get('REPO','/repo'))
import random, collections, warnings, pickle, hashlib, copy; warnings.simplefilter('ignore')
import numpy as np, pandas as pd
from formulaic import Formula, model_matrix, ModelSpec
seed=int(sys.argv[1]) if len(sys.argv)>1 else 0
rng=random.Random(seed); stats=collections.Counter(); shown=0
def note(k,msg=None):
    global shown
    stats[k]+=1
    if msg and shown<14: shown+=1; print(k,msg)
FORMS=['x + A','center(x) + A:B','scale(y):A + poly(x,2)','y ~ x + S','bs(p, df=4, extrapolation="clip") + C(A, contr.sum)','x:y + {x+p}','cr(p, df=3) | A + B','hashed(S, levels=4) + x','S:A + log(p)','(x+y+A)**2']
def mkdf(k, n=14):
    r=np.random.default_rng(1000+k)
    d=pd.DataFrame({'x':r.normal(size=n),'y':r.normal(size=n),'p':r.uniform(1,2,size=n),'A':pd.Categorical(r.choice(list('uvw'),size=n),categories=list('uvw')),'B':pd.Categorical(r.choice(list('kl'),size=n),categories=list('kl')),'S':r.choice(['s1','s2'],size=n).astype(object)})
    if k%2: d.loc[3,'x']=np.nan
    return d
def digest(m):
    h=hashlib.sha256()
    for p in (m._flatten() if hasattr(m,'_flatten') else [m]):
        a=p.toarray() if hasattr(p,'toarray') else np.asarray(p,float)
        h.update(repr(tuple(p.model_spec.column_names)).encode()); h.update(np.ascontiguousarray(a).tobytes()); h.update(repr(a.shape).encode())
        if hasattr(p,'index'): h.update(repr(list(p.index)).encode())
    return h.hexdigest()
for it in range(int(sys.argv[2]) if len(sys.argv)>2 else 60):
    dfs=[mkdf(k) for k in range(3)]; snaps=[d.copy(deep=True) for d in dfs]
    forms=[Formula(f) for f in rng.sample(FORMS,4)]; freprs=[repr(f) for f in forms]
    specs=[]  # (desc, spec)
    oplog=[]
    def fresh(desc):
        kind=desc[0]
        if kind=='mm': return digest(model_matrix(Formula(desc[1]), mkdf(desc[2]), output=desc[3]))
        if kind=='fit_replay':
            sp=model_matrix(Formula(desc[1]), mkdf(desc[2]), output=desc[3]).model_spec
            return digest(sp.get_model_matrix(mkdf(desc[4])))
        if kind=='unfitted':
            return digest(ModelSpec.from_spec(Formula(desc[1]), output=desc[3]).get_model_matrix(mkdf(desc[2])))
    unf={}
    ok=True
    for step in range(rng.randint(8,25)):
        op=rng.choice(['mm','formula','fit','replay','replay_update','replay_pickle','unfitted'])
        fi=rng.randrange(len(forms)); di=rng.randrange(3); out=rng.choice(['pandas','numpy','sparse'])
        fstr=FORMS[FORMS.index(next(s for s in FORMS if repr(Formula(s))==freprs[fi]))]
        try:
            if op=='mm': got=digest(model_matrix(forms[fi], dfs[di], output=out)); desc=('mm',fstr,di,out)
            elif op=='formula': got=digest(forms[fi].get_model_matrix(dfs[di], output=out)); desc=('mm',fstr,di,out)
            elif op=='fit': 
                m=model_matrix(forms[fi], dfs[di], output=out); specs.append(((fstr,di,out), m.model_spec)); got=digest(m); desc=('mm',fstr,di,out)
            elif op in('replay','replay_update','replay_pickle'):
                if not specs: continue
                (f0,d0,o0),sp=rng.choice(specs)
                if op=='replay_update': sp=sp.update(output=o0) if not hasattr(sp,'_flatten') else sp
                if op=='replay_pickle': sp=pickle.loads(pickle.dumps(sp))
                got=digest(sp.get_model_matrix(dfs[di])); desc=('fit_replay',f0,d0,o0,di)
            else:
                key=(fstr,out)
                if key not in unf: unf[key]=ModelSpec.from_spec(forms[fi], output=out)
                got=digest(unf[key].get_model_matrix(dfs[di])); desc=('unfitted',fstr,di,out)
        except Exception as e:
            note('EXC', f'{op} {fstr} {type(e).__name__} {str(e)[:80]}'); ok=False; break
        exp=fresh(desc)
        if got!=exp: ok=False; note('BAD_history_dependence', f'{desc} step {step}'); break
    for d,s in zip(dfs,snaps):
        if not d.equals(s): ok=False; note('BAD_data_mutated')
    if [repr(f) for f in forms]!=freprs: ok=False; note('BAD_formula_mutated')
    note('ok' if ok else 'case_bad')
print(dict(stats))
