import sys, os; sys.path.insert(0, os.environ.get('REPO','/repo'))
import warnings, itertools, random, collections; warnings.simplefilter("ignore")
import numpy as np, pandas as pd
from formulaic import Formula, model_matrix
rng = random.Random(int(sys.argv[1]) if len(sys.argv)>1 else 0)
nprng = np.random.default_rng(int(sys.argv[1]) if len(sys.argv)>1 else 0)
stats=collections.Counter(); shown=0
CATS=['A','B','G']; NUMS=['x','y','z']
PYEX={'{x+y}': lambda d: d.x+d.y, 'I(x*2)': lambda d: d.x*2, 'log(y2)': lambda d: np.log(d.y2), '{z**2}': lambda d: d.z**2}
def dense(m): return m.toarray() if hasattr(m,'toarray') else np.asarray(m, dtype=float)
for it in range(int(sys.argv[2]) if len(sys.argv)>2 else 500):
    n = rng.choice([1,2,3,5,17,40])
    levels = {c: [f'{c.lower()}{i}' for i in range(rng.randint(1,4))] for c in CATS}
    d = {c: pd.Categorical([rng.choice(l) for _ in range(n)], categories=rng.sample(l,len(l))) for c,l in levels.items()}
    for v in NUMS: d[v] = nprng.normal(size=n)*rng.choice([1,1e-3,1e4])
    d['y2'] = nprng.uniform(0.5, 3, size=n)
    df = pd.DataFrame(d)
    atoms = CATS+NUMS+list(PYEX)
    nterms = rng.randint(1,5); terms=[]
    for _ in range(nterms):
        k = rng.randint(1,4); fs = rng.sample(atoms, k)
        scale = rng.choice([None,None,None,'2','2.5','0.5'])
        terms.append((scale, fs))
    # avoid same factor set twice with different scale
    seen=set(); terms=[t for t in terms if not (frozenset(t[1]) in seen or seen.add(frozenset(t[1])))]
    def tstr(t):
        fs=list(t[1]); 
        if t[0]: fs.insert(rng.randint(0,len(fs)), t[0])
        return ':'.join(fs)
    icpt = rng.random()<0.7
    f = ' + '.join((['1'] if icpt else ['0'])+[tstr(t) for t in terms])
    efr = rng.random()<0.5; out = rng.choice(['pandas','numpy','sparse'])
    try:
        mm = model_matrix(f, df, ensure_full_rank=efr, output=out)
    except Exception as e:
        stats['EXC_'+type(e).__name__]+=1
        if shown<10: shown+=1; print('EXC', f, efr, out, type(e).__name__, str(e)[:120])
        continue
    M = dense(mm); names = list(mm.model_spec.column_names)
    import ast
    NORM={ast.unparse(ast.parse(k.strip('{}'),mode='eval')):k for k in PYEX}
    def subcol(label):
        if label in NORM: label=NORM[label]
        if label in NUMS: return df[label].values.astype(float)
        if label in PYEX: return np.asarray(PYEX[label](df), dtype=float)
        for c in CATS:
            for l in levels[c]:
                if label in (f'{c}[{l}]', f'{c}[T.{l}]'): return (df[c].astype(object).values==l).astype(float)
        raise KeyError(label)
    def split(name):
        # split on ':' not inside braces/parens
        parts=[]; depth=0; cur=''
        for ch in name:
            if ch in '({[': depth+=1
            if ch in ')}]': depth-=1
            if ch==':' and depth==0: parts.append(cur); cur=''
            else: cur+=ch
        parts.append(cur); return parts
    # map term by factor set to scale
    ok=True; why=''
    if M.shape != (n, len(names)): ok=False; why=f'shape {M.shape} names {len(names)}'
    for j,name in enumerate(names if ok else []):
        if name=='Intercept': exp=np.ones(n); sc=1.0
        else:
            parts=split(name)
            try: cols=[subcol(p) for p in parts]
            except KeyError as e: ok=False; why=f'unparseable label {name}'; break
            fset=set()
            for p in parts:
                base = p.split('[')[0] if p.split('[')[0] in CATS else NORM.get(p,p)
                fset.add(base)
            owner=[term for term,idx in mm.model_spec.term_indices.items() if j in idx]
            if len(owner)!=1: ok=False; why=f'no unique owner for {name}'; break
            lits=[float(f.expr) for f in owner[0].factors if f.eval_method.value=='literal']
            sc=float(np.prod(lits)) if lits else 1.0
            ownset={NORM.get(f.expr,f.expr) for f in owner[0].factors if f.eval_method.value!='literal'}
            if not fset<=ownset: ok=False; why=f'label {name} uses factors {fset} not in owning term {ownset}'; break
            exp=sc*np.prod(cols,axis=0)
        if not np.allclose(M[:,j], exp, rtol=1e-9, atol=1e-9*max(1,np.abs(exp).max())):
            ok=False; why=f'col {name} mismatch got {M[:3,j]} exp {exp[:3]}'; break
    if ok and not efr:
        # expected full kronecker names
        sorted_terms = sorted(terms, key=lambda t: len(t[1]))  # degree, stable
        expn=['Intercept'] if icpt else []
        for sc,fs in sorted_terms:
            INV={v:k for k,v in NORM.items()}
            opts=[[f'{c}[{l}]' for l in df[c].cat.categories] if c in CATS else [INV.get(c,c)] for c in fs]
            for prod in itertools.product(*reversed(opts)):
                expn.append(':'.join(reversed(prod)))
        if expn!=names: ok=False; why=f'names {names} != {expn}'
    stats['ok' if ok else 'BAD']+=1
    if not ok and shown<15: shown+=1; print('BAD', repr(f), 'efr',efr,out,'n',n, why)
print(dict(stats))
