import sys, os; sys.path.insert(0, os.environ.get('REPO','/repo'))
import random, collections, warnings
import numpy as np, pandas as pd
from formulaic import Formula, model_matrix
from formulaic.errors import DataMismatchWarning, FactorEncodingError
seed=int(sys.argv[1]) if len(sys.argv)>1 else 0
rng=random.Random(seed); nprng=np.random.default_rng(seed); stats=collections.Counter(); shown=0
def note(k,msg=None):
    global shown
    stats[k]+=1
    if msg and shown<14: shown+=1; print(k,msg)
D=lambda m: m.toarray() if hasattr(m,'toarray') else np.asarray(m,float)
for it in range(int(sys.argv[2]) if len(sys.argv)>2 else 600):
    n=20; L={'A':list('uvw'),'B':list('kl'),'S':['s1','s2','s3','s4']}
    def catcol(v, levels, dtype):
        vals=[rng.choice(levels) for _ in range(n)]
        for i,l in enumerate(levels): vals[i]=l     # every level present
        if dtype=='category': return pd.Categorical(vals, categories=levels)
        if dtype=='object': return np.array(vals,dtype=object)
        return pd.Series(vals, dtype='str')
    dts={v: rng.choice(['category','object','str']) for v in L}
    df=pd.DataFrame({'x':nprng.normal(size=n),'y':nprng.normal(size=n), **{v:catcol(v,L[v],dts[v]) for v in L}})
    vars_=rng.sample(['x','y','A','B','S'], rng.randint(1,4))
    wrapC={v: (rng.random()<0.3 and v in L) for v in vars_}
    nm=lambda v: f'C({v})' if wrapC[v] else v
    terms=[':'.join(nm(v) for v in rng.sample(vars_, rng.randint(1,min(3,len(vars_))))) for _ in range(rng.randint(1,3))]
    f=' + '.join([rng.choice(['1','0'])]+terms)
    out=rng.choice(['pandas','numpy','sparse'])
    with warnings.catch_warnings():
        warnings.simplefilter('ignore')
        try: mm=model_matrix(f, df, output=out)
        except Exception as e: note('EXC_fit', f'{f} {type(e).__name__} {str(e)[:80]}'); continue
    spec=mm.model_spec; names=tuple(spec.column_names)
    used=[v for v in vars_ if any(nm(v) in t.split(':') for t in terms)]
    scen=rng.choice(['flip','lost','new','ok'])
    new=df.iloc[:8].copy().reset_index(drop=True)
    target=rng.choice(used)
    if scen=='flip':
        if target in L:
            if wrapC[target]: scen='ok'    # C() forces categorical: numeric data is legitimately re-coded
            else: new[target]=nprng.normal(size=8)
        else: new[target]=pd.Categorical([rng.choice('pq') for _ in range(8)])
    elif scen in('lost','new'):
        cats=[v for v in used if v in L]
        if not cats: scen='ok'
        else:
            target=rng.choice(cats)
            if scen=='lost': vals=[L[target][0]]*8
            else: vals=[rng.choice(L[target]+['ZZ']) for _ in range(8)]; vals[0]='ZZ'
            new[target]= pd.Categorical(vals) if dts[target]=='category' else (np.array(vals,dtype=object) if dts[target]=='object' else pd.Series(vals,dtype='str'))
    with warnings.catch_warnings(record=True) as w:
        warnings.simplefilter('always')
        try: m2=spec.get_model_matrix(new); exc=None
        except Exception as e: exc=e
    warned=any(issubclass(x.category, DataMismatchWarning) for x in w)
    if scen=='flip':
        if isinstance(exc, FactorEncodingError): note('ok_flip')
        else: note('BAD_flip', f'{f} target={target} exc={type(exc).__name__ if exc else None} {str(exc)[:80] if exc else ""}')
        continue
    if exc is not None: note('BAD_exc_'+scen, f'{f} {type(exc).__name__} {str(exc)[:100]}'); continue
    if tuple(m2.model_spec.column_names)!=names or D(m2).shape!=(8,len(names)): note('BAD_cols_'+scen, f); continue
    M2=D(m2)
    if scen=='new':
        if not warned: note('BAD_nowarn', f'{f} target={target}'); continue
        # rows with ZZ: all columns whose label mentions target are zero
        rows=[i for i in range(8) if new[target].iloc[i]=='ZZ']
        cols=[j for j,nme in enumerate(names) if (f'{nm(target)}[' in nme)]
        if cols and not np.allclose(M2[np.ix_(rows,cols)],0): note('BAD_new_nonzero', f'{f} {target}'); continue
        note('ok_new')
    elif scen=='lost':
        lost=L[target][1:]
        cols=[j for j,nme in enumerate(names) if any(f'{nm(target)}[{l}]' in nme or f'{nm(target)}[T.{l}]' in nme for l in lost)]
        if cols and not np.allclose(M2[:,cols],0): note('BAD_lost_nonzero', f); continue
        note('ok_lost')
    else: note('ok_same')
print(dict(stats))
