import sys, os; sys.path.insert(0, os.environ.get('REPO','/repo'))
import random, collections, warnings, pickle; 
import numpy as np, pandas as pd
from formulaic import Formula, model_matrix
from formulaic.errors import DataMismatchWarning, FactorEncodingError
seed=int(sys.argv[1]) if len(sys.argv)>1 else 0
rng=random.Random(seed); nprng=np.random.default_rng(seed); stats=collections.Counter(); shown=0
def note(k,msg=None):
    global shown
    stats[k]+=1
    if msg and shown<14: shown+=1; print(k,msg)
NUM=['x','y','p']; CAT=['A','B','S']
def tnum(v):
    return rng.choice([v, f'center({v})', f'scale({v})', f'scale({v}, ddof=0)', f'scale({v}, center=False)', f'standardize({v})', f'poly({v}, {rng.randint(1,3)})', f'poly({v}, 2, raw=True)',
        f'bs({v}, df={rng.randint(3,6)})', f'bs({v}, df=4, degree={rng.randint(0,3)}, include_intercept={rng.choice([True,False])})', f'cr({v}, df={rng.randint(3,5)})', f"cr({v}, df=4, constraints='center')", f'cc({v}, df={rng.randint(3,5)})',
        f'scale(center({v}))', f'{{center({v}) * center({v})}}', f'{{scale({v}) + {v}}}', f'I({v}**2)', f'exp({v})', f'{{{v} + 1}}'] + ([f'log({v})', f'log10({v})', f'exp10({v})'] if v=='p' else []))
def tcat(v):
    return rng.choice([v, f'C({v})', f'C({v}, contr.sum)', f'C({v}, contr.helmert)', f'C({v}, contr.diff)', f'C({v}, contr.poly)', f'C({v}, contr.SAS)', f'hashed({v}, levels=5)', f"C({v}, contr.treatment)"])
for it in range(int(sys.argv[2]) if len(sys.argv)>2 else 400):
    n=rng.randint(12,40)
    df=pd.DataFrame({'x':nprng.normal(size=n),'y':nprng.normal(size=n)*100+50,'p':nprng.uniform(0.5,3,size=n),
        'A':pd.Categorical([rng.choice('uvw') for _ in range(n)], categories=list('uvw')),'B':pd.Categorical([rng.choice('kl') for _ in range(n)]),'S':np.array([rng.choice(['s1','s2','s3']) for _ in range(n)],dtype=object)})
    enc={v:tnum(v) for v in NUM}; enc.update({v:tcat(v) for v in CAT})
    vars_=rng.sample(NUM+CAT, rng.randint(1,4))
    terms=[':'.join(enc[v] for v in rng.sample(vars_, rng.randint(1,min(2,len(vars_))))) for _ in range(rng.randint(1,4))]
    f=' + '.join([rng.choice(['1','0'])]+terms)
    out=rng.choice(['pandas','numpy','sparse'])
    D=lambda m: m.toarray() if hasattr(m,'toarray') else np.asarray(m,float)
    with warnings.catch_warnings():
        warnings.simplefilter('ignore')
        try: mm=model_matrix(f, df, output=out)
        except Exception as e: note('EXC_fit_'+type(e).__name__, f'{f} {str(e)[:80]}'); continue
        M0=D(mm); spec=mm.model_spec; names=tuple(spec.column_names)
        ok=True
        for step in range(5):
            kind=rng.choice(['same','subset','dup','perm','single','pickle','via_mm'])
            if kind=='same': rows=list(range(n))
            elif kind=='subset': rows=sorted(rng.sample(range(n), rng.randint(1,n)))
            elif kind=='dup': rows=[rng.randrange(n) for _ in range(rng.randint(1,2*n))]
            elif kind=='perm': rows=rng.sample(range(n),n)
            elif kind=='single': rows=[rng.randrange(n)]
            else: rows=sorted(rng.sample(range(n), rng.randint(1,n)))
            sub=df.iloc[rows].reset_index(drop=True)
            sp=spec
            if kind=='pickle': sp=pickle.loads(pickle.dumps(spec))
            try:
                if kind=='via_mm': m2=model_matrix(mm if out!='sparse' else spec, sub)
                else: m2=sp.get_model_matrix(sub)
            except Exception as e:
                ok=False; note('BAD_replay_exc', f'{f} [{kind}] {type(e).__name__} {str(e)[:100]}'); break
            if tuple(m2.model_spec.column_names)!=names: ok=False; note('BAD_names', f'{f} [{kind}]'); break
            M2=D(m2)
            if M2.shape!=(len(rows),len(names)) or not np.allclose(M2, M0[rows], rtol=1e-9, atol=1e-9, equal_nan=True):
                ok=False; note('BAD_values', f'{f} [{kind}] out={out} rows={rows[:5]}'); break
        note('ok' if ok else 'case_bad')
print(dict(stats))
