import sys, os; sys.path.insert(0, os.environ.get('REPO','/repo'))
import warnings, itertools, random, collections; warnings.simplefilter("ignore")
import numpy as np, pandas as pd
from formulaic import Formula, model_matrix, ModelSpec
from formulaic.materializers import PandasMaterializer
seed=int(sys.argv[1]) if len(sys.argv)>1 else 0
rng = random.Random(seed); nprng=np.random.default_rng(seed)
stats=collections.Counter(); shown=0
def dense(m): return m.toarray() if hasattr(m,'toarray') else np.asarray(m, dtype=float)
FORMS = {  # formula -> referenced columns
 'x': ['x'], 'x + A': ['x','A'], 'C(A) + y': ['A','y'], 'A:x': ['A','x'], 'S + x': ['S','x'], 'log(p) + x:y': ['p','x','y'], 'poly(y, 2)': ['y'],
 'bs(p, df=3)': ['p'], 'hashed(S, levels=4) + x': ['x'], '{x + y}': ['x','y'], 'I(x*2):A': ['x','A'], '1': [], '0': [], 'A:S': ['A','S'], 'C(S, contr.sum):y': ['S','y'],
 'y ~ x': ['y','x'], 'y ~ x | A': ['y','x','A'], 'x | S': ['x','S'], 'x:y:p': ['x','y','p'], 'center(q) + x': ['q','x'],
}
for it in range(int(sys.argv[2]) if len(sys.argv)>2 else 400):
    n = rng.choice([1,2,3,6,15])
    d = {'x': nprng.normal(size=n), 'y': nprng.normal(size=n), 'p': nprng.uniform(1,2,size=n), 'q': nprng.normal(size=n),
         'A': pd.Categorical([rng.choice('uvw') for _ in range(n)]), 'S': np.array([rng.choice(['k','l','m']) for _ in range(n)], dtype=object)}
    df = pd.DataFrame(d)
    for c in ['x','y','p','A','S']:
        for i in range(n):
            if rng.random()<0.15: df.loc[i,c] = None if c in 'AS' else np.nan
    idxkind = rng.choice(['default','str','nonunique','unsorted','multi'])
    if idxkind=='str': df.index=[f'r{i}' for i in range(n)]
    elif idxkind=='nonunique': df.index=[rng.choice('ab') for _ in range(n)]
    elif idxkind=='unsorted': df.index=rng.sample(range(100),n)
    elif idxkind=='multi': df.index=pd.MultiIndex.from_tuples([(rng.choice('ab'), i) for i in range(n)])
    f = rng.choice(list(FORMS)); cols = FORMS[f]
    if f.startswith(('poly','bs')) and df[cols[0]].nunique() < 5: continue
    if f.startswith('hashed'): cols=['x']
    nullrows = set(i for i in range(n) for c in cols if pd.isnull(df[c].iloc[i]))
    caller = set(rng.sample(range(n), rng.randint(0, min(2,n)))) if rng.random()<0.5 else None
    na = rng.choice(['drop','drop','drop','raise','ignore'])
    if na=='raise': caller=None
    out = rng.choice(['pandas','numpy','sparse'])
    entry = rng.choice(['mm','formula','spec','spec_over','mat'])
    s = set(caller) if caller is not None else None
    kw = dict(na_action=na, output=out)
    try:
        if entry=='mm': res = model_matrix(f, df, drop_rows=s, **kw)
        elif entry=='formula': res = Formula(f).get_model_matrix(df, drop_rows=s, **kw)
        elif entry=='spec': res = ModelSpec.from_spec(Formula(f), **kw).get_model_matrix(df, drop_rows=s)
        elif entry=='spec_over': res = ModelSpec.from_spec(Formula(f)).get_model_matrix(df, drop_rows=s, **kw)
        else: res = PandasMaterializer(df).get_model_matrix(f, drop_rows=s, **kw)
        exc=None
    except Exception as e:
        exc=e
    key=(f, idxkind, na, out, entry)
    if na=='raise':
        should = len(nullrows)>0
        if should != (exc is not None): 
            stats['BAD']+=1; print('BAD raise', key, 'nullrows', nullrows, 'exc', type(exc).__name__ if exc else None, str(exc)[:100] if exc else '')
        else: stats['ok']+=1
        continue
    if exc is not None:
        stats['BAD']+=1
        if shown<20: shown+=1; print('BAD exc', key, n, 'nullrows', sorted(nullrows), 'caller', caller, type(exc).__name__, str(exc)[:120])
        continue
    kept = list(range(n)) if na=='ignore' and caller is None else [i for i in range(n) if i not in (caller or set()) and (na=='ignore' or i not in nullrows)]
    parts = list(res._flatten()) if hasattr(res,'_flatten') else [res]
    ok=True; why=''
    for p in parts:
        M=dense(p)
        if M.shape[0]!=len(kept): ok=False; why=f'rows {M.shape[0]} expected {len(kept)}'; break
        if out=='pandas' and list(p.index)!=list(df.index[kept]): ok=False; why=f'index {list(p.index)} expected {list(df.index[kept])}'; break
    if ok and na=='drop' and s is not None:
        exp_set=set(range(n))-set(kept)
        if set(int(i) for i in s)!=exp_set: ok=False; why=f'drop set {s} expected {exp_set}'
    if ok and na=='drop' and not f.startswith(('poly','bs','center','hashed')) :
        # values equal matrix on prefiltered data (stateless formulas)
        try:
            ref = model_matrix(f, df.iloc[kept], output='numpy', na_action='drop')
            rparts = list(ref._flatten()) if hasattr(ref,'_flatten') else [ref]
            for p,r in zip(parts,rparts):
                if tuple(p.model_spec.column_names)==tuple(r.model_spec.column_names):
                    if not np.allclose(dense(p), dense(r), equal_nan=True): ok=False; why='values differ from prefiltered'
        except Exception as e: pass
    stats['ok' if ok else 'BAD']+=1
    if not ok and shown<20: shown+=1; print('BAD', key, 'n',n,'nullrows',sorted(nullrows),'caller',caller, why)
print(dict(stats))
