import sys, os; sys.path.insert(0, os.environ.get('REPO','/repo'))
import random, collections, warnings, itertools; warnings.simplefilter("ignore")
import numpy as np, pandas as pd
from formulaic import Formula, model_matrix, ModelSpec
from formulaic.errors import FactorEvaluationError
seed=int(sys.argv[1]) if len(sys.argv)>1 else 0
rng=random.Random(seed); nprng=np.random.default_rng(seed); stats=collections.Counter(); shown=0
def note(k, msg=None):
    global shown
    stats[k]+=1
    if msg and shown<14: shown+=1; print(k, msg)
n=9
COLS=['x','y','z','A','B','x y','w+1','log','class']
def mkdata():
    d={'x':nprng.normal(size=n),'y':nprng.uniform(1,2,size=n),'z':nprng.normal(size=n),'A':pd.Categorical([rng.choice('uvw') for _ in range(n)], categories=list('uvw')),'B':pd.Categorical([rng.choice('kl') for _ in range(n)], categories=list('kl')),'x y':nprng.normal(size=n),'w+1':nprng.normal(size=n), 'class': nprng.normal(size=n)}
    return pd.DataFrame(d)
# factor templates: (text, data vars used, context names used)
def ctxf(v): return v*3
TEMPL=[('x',['x'],[]),('y',['y'],[]),('A',['A'],[]),('`x y`',['x y'],[]),('`w+1`',['w+1'],[]),('log(y)',['y'],[]),('np.log(y)',['y'],[]),('C(A)',['A'],[]),('C(B, contr.sum)',['B'],[]),
       ('I(x*k)',['x'],['k']),('{x + cv}',['x'],['cv']),('ctxf(z)',['z'],['ctxf']),('center(x)',['x'],[]),('poly(z, 2)',['z'],[]),('bs(y, df=3)',['y'],[]),('I(`x y` + z)',['x y','z'],[]),
       ('{`class` * 2}',['class'],[]),('scale(z, center=k)',['z'],['k']),('cv',[],['cv']),('hashed(A, levels=3)',['A'],[]),('{x if True else z}',['x','z'],[])]
for it in range(int(sys.argv[2]) if len(sys.argv)>2 else 500):
    df=mkdata(); ctx={'k':2.0,'cv':np.arange(n,dtype=float),'ctxf':ctxf}
    facs=rng.sample(TEMPL, rng.randint(1,4))
    terms=[]
    for _ in range(rng.randint(1,3)):
        t=rng.sample(facs, rng.randint(1,min(2,len(facs))))
        terms.append(t)
    used=[f for t in terms for f in t]
    D=sorted({v for f in used for v in f[1]}); K=sorted({v for f in used for v in f[2] if not callable(ctx[v])})
    f=' + '.join(':'.join(x[0] for x in t) for t in terms)
    two=rng.random()<0.3
    if two: f='y ~ '+f; D=sorted(set(D)|{'y'})
    try:
        form=Formula(f)
        rv=sorted(form.required_variables)
    except Exception as e: note('BAD_formula_req_exc', f'{f} {type(e).__name__} {str(e)[:60]}'); continue
    if rv!=sorted(set(D)|set(K)): note('BAD_formula_req', f'{f} got {rv} exp {sorted(set(D)|set(K))}'); continue
    try: mm=model_matrix(f, df, context=ctx)
    except Exception as e: note('EXC_mm', f'{f} {type(e).__name__} {str(e)[:80]}'); continue
    ms=mm.model_spec
    srv=sorted(ms.required_variables)
    if srv!=D: note('BAD_spec_req', f'{f} got {srv} exp {D}'); continue
    # sufficiency
    try:
        mm2=model_matrix(f, df[D], context=ctx)
        parts=lambda m: list(m._flatten()) if hasattr(m,'_flatten') else [m]
        if not all(np.allclose(a.values.astype(float), b.values.astype(float)) for a,b in zip(parts(mm),parts(mm2))): note('BAD_suff_values', f); continue
    except Exception as e: note('BAD_suff', f'{f} {type(e).__name__} {str(e)[:80]}'); continue
    # necessity
    bad=False
    for dname in D:
        try:
            model_matrix(f, df[[c for c in D if c!=dname]], context=ctx); note('BAD_necessity_accepts', f'{f} without {dname}'); bad=True
        except FactorEvaluationError: pass
        except Exception as e: note('BAD_necessity_exc', f'{f} without {dname}: {type(e).__name__} {str(e)[:60]}'); bad=True
    # sources
    specs=list(ms._flatten()) if hasattr(ms,'_flatten') else [ms]
    bysrc=collections.defaultdict(set)
    for s in specs:
        for k_,v in s.variables_by_source.items(): bysrc[k_]|=set(v)
    if set(bysrc.get('data',()))!=set(D): note('BAD_src_data', f'{f} {dict(bysrc)}'); bad=True
    ctxnames={v for fct in used for v in fct[2]}
    if not ctxnames<=set(bysrc.get('context',())): note('BAD_src_ctx', f'{f} {dict(bysrc)} exp ctx {ctxnames}'); bad=True
    note('case_bad' if bad else 'ok')
# layering sentinels
df=pd.DataFrame({'v':[1.,1,1]})
r=model_matrix('v + u + log(v)', df, context={'v':np.array([2.,2,2]),'u':np.array([5.,5,5]),'log':lambda q:q*100})
print(r.values.tolist()[0], {k:sorted(v) for k,v in r.model_spec.variables_by_source.items()})
r=model_matrix('u + exp(v)', df, context={'u':np.array([5.,5,5])}); print(r.values.tolist()[0], {k:sorted(v) for k,v in r.model_spec.variables_by_source.items()})
print(dict(stats))
