import sys, os; sys.path.insert(0, os.environ.get('REPO','/repo'))
import random, collections, warnings; warnings.simplefilter("ignore")
import numpy as np
from formulaic.transforms import basis_spline
seed=int(sys.argv[1]) if len(sys.argv)>1 else 0
rng=random.Random(seed); nprng=np.random.default_rng(seed); stats=collections.Counter(); shown=0
def ref_basis(x, t, k, extend=False):
    """Cox-de Boor by definition on knot vector t (len m), degree k. half-open intervals; last non-empty interval closed on the right.
    extend=True: first/last non-empty *interior* pieces continue polynomially (evaluate the piece's polynomial outside)."""
    t=np.asarray(t,float); m=len(t); x=np.asarray(x,float)
    nb=m-k-1
    # identify the domain [t[k], t[m-k-1]]
    lo,hi=t[k],t[m-k-1]
    # piece index for each x: j such that t[j] <= x < t[j+1], j in [k, m-k-2], non-empty
    nonempty=[j for j in range(k, m-k-1) if t[j]<t[j+1]]
    out=np.zeros((len(x),nb))
    for r,xv in enumerate(x):
        if np.isnan(xv): out[r]=np.nan; continue
        if not nonempty:   # degenerate domain
            out[r]=np.nan; continue
        if xv<lo: j=nonempty[0] if extend else None
        elif xv>hi: j=nonempty[-1] if extend else None
        else:
            j=None
            for jj in nonempty:
                if t[jj]<=xv<t[jj+1]: j=jj
            if j is None and xv==hi: j=nonempty[-1]
        if j is None: continue
        # de Boor triangular scheme on piece j (valid polynomial for any xv)
        N=np.zeros(k+1); N[0]=1.0
        left=np.zeros(k+1); right=np.zeros(k+1)
        for d in range(1,k+1):
            left[d]=xv-t[j+1-d]; right[d]=t[j+d]-xv
            saved=0.0
            for q in range(d):
                den=right[q+1]+left[d-q]
                tmp=N[q]/den if den!=0 else 0.0
                N[q]=saved+right[q+1]*tmp
                saved=left[d-q]*tmp
            N[d]=saved
        for q in range(k+1):
            out[r, j-k+q]=N[q]
    return out
for it in range(int(sys.argv[2]) if len(sys.argv)>2 else 800):
    n=rng.randint(6,40)
    kind=rng.choice(['normal','ties','ints','uniform'])
    x={'normal':lambda: nprng.normal(size=n),'ties':lambda: nprng.choice(nprng.normal(size=5),size=n),'ints':lambda: nprng.integers(0,6,size=n).astype(float),'uniform':lambda: nprng.uniform(0,1,size=n)}[kind]()
    if len(np.unique(x))<3: continue
    k=rng.randint(0,5); inc=rng.random()<0.5
    kw=dict(degree=k, include_intercept=inc)
    mode=rng.choice(['df','knots','none'])
    if mode=='df': kw['df']=k+(1 if inc else 0)+rng.randint(0,4)
    elif mode=='knots': kw['knots']=sorted(nprng.uniform(x.min(),x.max(),size=rng.randint(1,3)).tolist())
    if kw.get('df')==0: kw.pop('df')
    if rng.random()<0.4:
        kw['lower_bound']=float(np.quantile(x,0.1)); kw['upper_bound']=float(np.quantile(x,0.9))
        if mode=='knots': kw['knots']=[q for q in kw['knots'] if kw['lower_bound']<=q<=kw['upper_bound']] or None
        if kw.get('knots') is None: kw.pop('knots',None)
    ext=rng.choice(['raise','clip','na','zero','extend'])
    kw['extrapolation']=ext
    st={}
    try: res=basis_spline(x,_state=st,**kw)
    except ValueError as e:
        oob = ('lower_bound' in kw) and bool(np.any((x<kw['lower_bound'])|(x>kw['upper_bound'])))
        if ext=='raise' and oob: stats['raise_ok']+=1
        else:
            stats['EXC']+=1
            if shown<6: shown+=1; print('EXC', kind, kw, str(e)[:80])
        continue
    if ext=='raise' and ('lower_bound' in kw) and np.any((x<kw['lower_bound'])|(x>kw['upper_bound'])): stats['BAD_no_raise']+=1; continue
    M=np.column_stack([res[i] for i in sorted(res)]) if len(res) else np.zeros((n,0))
    t=st['knots']; lo,hi=st['lower_bound'],st['upper_bound']
    xe=x.copy()
    if ext=='clip': xe=np.clip(x,lo,hi)
    R=ref_basis(xe,t,k,extend=(ext=='extend'))
    oob=(x<lo)|(x>hi)
    if ext=='na': R[oob]=np.nan
    if ext=='zero': R[oob]=0
    Rr=R if inc else R[:,1:]
    tt=np.asarray(t); clean_bounds = (np.sum(tt==tt[0])==k+1 and np.sum(tt==tt[-1])==k+1)
    cmp_rows = np.ones(len(x),bool) if (ext!='extend' or clean_bounds) else ~oob
    ok = M.shape==Rr.shape and np.allclose(M[cmp_rows],Rr[cmp_rows],atol=1e-9,equal_nan=True)
    okdf = ('df' not in kw) or M.shape[1]==kw['df']
    inside=~oob & ~np.isnan(x)
    full=basis_spline(x,_state=dict(st),degree=k,include_intercept=True,extrapolation=ext)
    F=np.column_stack([full[i] for i in sorted(full)])
    okpou = np.allclose(F[inside].sum(axis=1),1) and (F[inside]>=-1e-12).all()
    if ok and okdf and okpou: stats['ok_'+ext]+=1
    else:
        stats['BAD']+=1
        if shown<8:
            shown+=1; bad=np.argwhere(~np.isclose(M,Rr,atol=1e-9,equal_nan=True)) if M.shape==Rr.shape else None
            print('BAD', kind, kw, 'knots', np.round(t,3).tolist(), ok, okdf, okpou, M.shape, Rr.shape, None if bad is None else (bad[:3].tolist(), x[bad[0][0]], M[bad[0][0]], Rr[bad[0][0]]))
print(dict(stats))
