"""CLI: python -m fxmon {setup|check|worker|replay|list} ..."""

import argparse
import json
import os
import subprocess
import sys

from . import DEPS_DIR, VERIF_DIR


def ensure_deps() -> None:
    """Idempotent offline install of icontract/deal next to the checks (git-ignored .deps)."""
    marker = os.path.join(DEPS_DIR, "icontract")
    if os.path.isdir(marker):
        return
    os.makedirs(DEPS_DIR, exist_ok=True)
    subprocess.run(
        [sys.executable, "-m", "pip", "install", "--quiet", "--no-index", "--find-links",
         "/opt/veriftools/wheels", "--target", DEPS_DIR, "icontract", "deal"],
        check=False, stdout=subprocess.DEVNULL, stderr=subprocess.DEVNULL,
    )


def main() -> int:
    ap = argparse.ArgumentParser(prog="fxmon")
    sp = ap.add_subparsers(dest="cmd", required=True)
    sp.add_parser("setup")
    sp.add_parser("list")
    c = sp.add_parser("check")
    c.add_argument("id")
    c.add_argument("--tier", default=os.environ.get("VERIF_TIER", "quick"), choices=["quick", "thorough"])
    c.add_argument("--seed", type=int, default=int(os.environ.get("VERIF_SEED", "0")))
    w = sp.add_parser("worker")
    w.add_argument("id")
    w.add_argument("--tier", required=True)
    w.add_argument("--seed", type=int, required=True)
    w.add_argument("--shard", required=True)
    w.add_argument("--budget", type=float, default=600)
    w.add_argument("--out", required=True)
    r = sp.add_parser("replay")
    r.add_argument("path")
    args = ap.parse_args()

    if args.cmd == "setup":
        ensure_deps()
        from . import use_repo

        print("formulaic under test:", use_repo())
        print("deps:", sorted(os.listdir(DEPS_DIR))[:8] if os.path.isdir(DEPS_DIR) else "none")
        return 0

    ensure_deps()
    from . import use_repo

    use_repo()
    from .checks import IDS, load
    from . import core

    if args.cmd == "list":
        for i in IDS:
            m = load(i)
            print(i, {k: (v.quick, v.thorough) for k, v in m.SUBS.items()})
        return 0
    if args.cmd == "check":
        return core.run_check(load(args.id), args.tier, args.seed)
    if args.cmd == "worker":
        from . import REPO_DIR, cov

        cov.start(REPO_DIR, args.id)
        k, n = (int(x) for x in args.shard.split("/"))
        res = core.run_shard(load(args.id), args.tier, args.seed, k, n, args.budget)
        with open(args.out + ".tmp", "w") as f:
            json.dump(res, f, default=repr)
        os.replace(args.out + ".tmp", args.out)
        return 0
    if args.cmd == "replay":
        return core.replay(args.path)
    return 2


if __name__ == "__main__":
    sys.exit(main())
