"""C20 - formula differentiation is the term-wise partial derivative."""

from __future__ import annotations

import itertools
import random

import numpy as np

from ..core import Outcome, Sub
from ..data import dense, make_frame, quiet

ID = "C20"
DESIGN_REF = "DESIGN.md section 4 / C20"
TECHNIQUE = "runtime monitoring: symbolic reference (product rule on factor sets) + exact finite-difference monitor on materialized columns, both rank modes"
LEVEL_TEXT = (
    "For random formulas whose terms are products of distinct factors and random tuples of differentiation variables (with "
    "repeats and absent variables) the real differentiate() result is compared term by term with the product rule applied to "
    "the factor sets, and the derivative formula is materialized and compared with the exact successive finite differences of "
    "the original term columns (multilinear => exact). Held-on-observed."
)
LEVEL_NOTE = "trusts: numpy; locating a term's columns through the rows of model_spec.structure"
RULE = (
    "random term sets over 5 numeric variables (1-6 terms of order 1-4, optional intercept, ordering degree/none/sort) x 1-3 "
    "differentiation variables drawn with replacement incl. a variable that occurs nowhere; distinct = (sorted term orders, "
    "pattern of wrt membership per term, intercept, ordering)"
)
ASSUMPTIONS = ["integer-valued data and h = 1 so that finite differences of multilinear terms are exact in floating point"]
V = list("abcde")
PYF = ["log(p)", "I(p + 1)", "center(p)"]
# columns whose names look like numbers (wide-format year columns, `1e3`), hold a space, or spell a float constant
ODD = ["2019", "1e3", "x y", "inf"]


def ftext(x):
    return f"`{x}`" if x in ODD and x != "inf" else x


def gen_case(rng: random.Random, tier: str) -> dict:
    terms, seen = [], set()
    for _ in range(rng.randint(1, 6)):
        fs = rng.sample(V, rng.randint(1, 4))
        if rng.random() < 0.25:  # factors computed by Python code are differentiation variables like any other (by their text)
            fs[rng.randrange(len(fs))] = rng.choice(PYF)
            fs = list(dict.fromkeys(fs))
        if rng.random() < 0.25:
            fs[rng.randrange(len(fs))] = rng.choice(ODD)
            fs = list(dict.fromkeys(fs))
        if frozenset(fs) in seen:
            continue
        seen.add(frozenset(fs))
        if rng.random() < 0.2:  # a numeric scale stays with the term (and is all that is left when every variable goes)
            fs = [rng.choice(["2", "3", "0.5", "10"])] + fs
        terms.append(fs)
    n = 6
    entry = rng.choice(["formula", "formula", "spec", "fitted_spec", "structured", "structured_specs"])
    if entry == "fitted_spec" and terms and rng.random() < 0.6:  # something fitted (a mean) survives in the gradient
        t = rng.choice(terms)
        lit = {"2", "3", "0.5", "10"}
        if "center(p)" not in t and not any(set(u) - lit == (set(t) | {"center(p)"}) - lit for u in terms):
            t.append("center(p)")
    return {
        "terms": terms, "icpt": rng.random() < 0.6, "ordering": rng.choice(["degree", "none", "sort"]),
        "wrt": [rng.choice(V + ["q"] + (PYF if any(f in PYF for t in terms for f in t) else []) + 2 * [f for t in terms for f in t if f in ODD]) for _ in range(rng.randint(1, 3))],
        "data": {**{v: [float(rng.randint(-4, 4)) for _ in range(n)] for v in V + ODD}, "p": [float(rng.randint(1, 5)) for _ in range(n)]},
        "entry": entry,
    }


def dterm(factors, wrt):
    fs = list(factors)
    for v in wrt:
        if v not in fs:
            return ["0"]
        fs = [x for x in fs if x != v]
    return fs or ["1"]


def term_columns(spec, M):
    cols, pos = [], 0
    for row in spec.structure:
        k = len(row[2])
        cols.append(M[:, pos:pos + k])
        pos += k
    return cols


def judge(case) -> Outcome:
    import pandas as pd
    from formulaic import Formula, model_matrix

    out = Outcome()
    f = " + ".join((["1"] if case["icpt"] else ["0"]) + [":".join(ftext(x) for x in t) for t in case["terms"]])
    form = Formula(f, _ordering=case["ordering"])
    wrt = case["wrt"]
    orig_terms = [[x.expr for x in t.factors] for t in form]
    out.sig = (tuple(sorted(len(t) for t in case["terms"])),
               tuple(tuple(w in t for w in wrt) for t in orig_terms), case["icpt"], case["ordering"], len(set(wrt)) != len(wrt))
    entry = case.get("entry", "formula")
    out.sig = out.sig + (entry,)
    try:
        # every public way of asking for the derivative
        from formulaic import ModelSpec

        if entry == "formula":
            ds = [form.differentiate(*wrt)]
        elif entry == "spec":
            ds = [ModelSpec.from_spec(form).differentiate(*wrt).formula]
        elif entry == "fitted_spec":
            with quiet():
                fitted = model_matrix(form, pd.DataFrame(case["data"]), context={}).model_spec
            dspec = fitted.differentiate(*wrt)
            ds = [dspec.formula]
            # the gradient of a fitted spec must itself materialize, to the same matrix as the differentiated formula
            try:
                with quiet():
                    g1 = dense(dspec.get_model_matrix(pd.DataFrame(case["data"]), output="numpy", ensure_full_rank=False))
                    g2 = dense(model_matrix(ds[0], pd.DataFrame(case["data"]), output="numpy", ensure_full_rank=False, context={}))
                if g1.shape != g2.shape or not np.allclose(g1, g2):
                    out.fail("c20.fitted_spec_gradient", f"{f!r} wrt {wrt}: gradient of the fitted spec materializes to {g1.shape} != differentiated formula {g2.shape} (or values differ)")
                # the gradient of a *fitted* spec keeps what was fitted (means, levels): on a selection of rows it gives those rows
                with quiet():
                    g3 = dense(dspec.get_model_matrix(pd.DataFrame(case["data"]).iloc[[4, 1, 2]], output="numpy", ensure_full_rank=False))
                if g3.shape != g1[[4, 1, 2]].shape or not np.allclose(g3, g1[[4, 1, 2]]):
                    out.fail("c20.fitted_spec_gradient", f"{f!r} wrt {wrt}: gradient of the fitted spec on rows [4, 1, 2] gives {g3.tolist()} != those rows of its matrix on the training data {g1[[4, 1, 2]].tolist()}")
                out.see("fitted_gradients_materialized")
            except Exception as e:  # noqa: BLE001
                out.fail("c20.fitted_spec_gradient", f"{f!r} wrt {wrt}: materializing the gradient of a fitted spec: {type(e).__name__}: {str(e)[:120]}")
        elif entry == "structured":
            dstruct = Formula(f"{f} | {f}", _ordering=case["ordering"]).differentiate(*wrt)
            ds = list(dstruct._flatten())
            # the gradient of a (structured) formula is itself a formula: it can be materialized and differentiated again
            try:
                with quiet():
                    parts = list(dstruct.get_model_matrix(pd.DataFrame(case["data"]), output="numpy", ensure_full_rank=False, context={})._flatten())
                    again = dstruct.differentiate(wrt[0])
                if len(parts) != len(ds) or len(list(again._flatten())) != len(ds):
                    out.fail("c20.structured_gradient_unusable", f"{f!r} wrt {wrt}: the structured gradient materializes to {len(parts)} parts for {len(ds)}")
                out.see("structured_gradients_used")
            except Exception as e:  # noqa: BLE001
                out.fail("c20.structured_gradient_unusable", f"{f!r} wrt {wrt}: the gradient of a structured formula cannot be used as a formula: {type(e).__name__}: {str(e)[:100]}")
        else:
            specs = ModelSpec.from_spec(Formula(f"{f} | {f}", _ordering=case["ordering"])).differentiate(*wrt)
            ds = [ms.formula for ms in specs._flatten()]
    except Exception as e:  # noqa: BLE001
        out.fail("c20.differentiate_raised", f"{f!r} wrt {wrt} via {entry}: {type(e).__name__}: {e}")
        return out
    exp = [sorted(dterm([x for x in t if x != "1"], wrt)) if t != ["1"] else ["0"] for t in orig_terms]
    for d in ds:
        got = [sorted(x.expr for x in t.factors) for t in d]
        if exp != got:
            out.fail("c20.symbolic", f"{f!r} wrt {wrt} via {entry}: derivative terms {got} != product rule {exp}")
            return out
    d = ds[0]
    if entry == "formula" and len(wrt) >= 2:  # variables applied successively: a gradient differentiated again
        try:
            chained = form
            for v in wrt:
                chained = chained.differentiate(v)
            got2 = [sorted(x.expr for x in t.factors) for t in chained]
            if got2 != exp:
                out.fail("c20.symbolic", f"{f!r}: differentiating successively by {wrt} gives {got2} != product rule {exp}")
                return out
            out.see("chained_gradients")
        except Exception as e:  # noqa: BLE001
            out.fail("c20.differentiate_raised", f"{f!r} wrt {wrt} one variable at a time: {type(e).__name__}: {e}")
            return out
    if list(map(repr, form)) != list(map(repr, Formula(f, _ordering=case["ordering"]))):
        out.fail("c20.mutated_formula", "differentiate changed the original formula")
    out.see("symbolic_ok")
    if any(f in PYF for t in orig_terms for f in t):
        out.see("symbolic_only_python_factors")  # (finite differences are taken in data columns; a computed factor is not one)
        return out
    # numeric: successive finite differences of each original term column
    df = pd.DataFrame(case["data"])
    n = len(df)

    def cols_of(frame):
        mm = model_matrix(form, frame, output="numpy", ensure_full_rank=False, context={})
        return term_columns(mm.model_spec, dense(mm))

    acc = None
    k = len(wrt)
    for bits in itertools.product((0, 1), repeat=k):
        shifted = df.copy()
        for b, v in zip(bits, wrt):
            if b and v in shifted:
                shifted[v] = shifted[v] + 1.0
        sign = (-1) ** (k - sum(bits))
        cs = cols_of(shifted)
        acc = [sign * c for c in cs] if acc is None else [a + sign * c for a, c in zip(acc, cs)]
    if any(c.shape[1] != 1 for c in acc) or len(acc) != len(exp):
        out.fail("c20.harness", f"original formula did not give one column per term: {[c.shape for c in acc]}")
        return out
    fd = [c[:, 0] for c in acc]
    def is_lit(x):
        return x not in case["data"] and x.replace(".", "", 1).isdigit()

    nlit = sum(1 for e in exp if all(is_lit(x) for x in e))
    for efr in (False, True):
        try:
            with quiet():
                mm = model_matrix(d, df, output="numpy", ensure_full_rank=efr, context={})
            dc = term_columns(mm.model_spec, dense(mm))
        except Exception as e:  # noqa: BLE001
            out.fail("c20.materialize_raised", f"{f!r} wrt {wrt} efr={efr}: {type(e).__name__}: {str(e)[:150]}")
            continue
        bad_nonconst, bad_const = [], []
        if len(dc) != len(exp):
            out.fail("c20.term_count", f"{f!r} wrt {wrt}: {len(dc)} structure rows for {len(exp)} terms")
            continue
        for i, e in enumerate(exp):
            const = all(is_lit(x) for x in e)
            if e == ["0"]:
                ok = dc[i].shape[1] in (0, 1) and np.allclose(fd[i], 0) and (dc[i].shape[1] == 0 or np.allclose(dc[i][:, 0], 0))
                if efr and dc[i].shape[1] == 0:
                    ok = np.allclose(fd[i], 0)
            else:
                ok = dc[i].shape[1] == 1 and np.allclose(dc[i][:, 0], fd[i], rtol=0, atol=1e-9)
            if not ok:
                (bad_const if const else bad_nonconst).append((i, e))
        if bad_nonconst or (bad_const and not efr):
            out.fail("c20.finite_difference", f"{f!r} wrt {wrt} efr={efr}: derivative columns of terms {bad_nonconst + bad_const} differ from finite differences")
        elif bad_const:
            if nlit >= 2:
                out.fail("c20.constant_terms_collide", f"{f!r} wrt {wrt}: literal-only derivative terms {bad_const} share one scoped term under rank reduction")
            else:
                out.fail("c20.finite_difference", f"{f!r} wrt {wrt} efr={efr}: constant derivative term {bad_const} wrong")
        else:
            out.see("numeric_ok_efr" if efr else "numeric_ok_full")
        if not efr:
            # the labelled (pandas) output must hold the same columns as the positional one
            try:
                with quiet():
                    pm = model_matrix(d, df, output="pandas", ensure_full_rank=False, context={})
                if pm.shape[1] != sum(c.shape[1] for c in dc):
                    dup = [n for n in set(mm.model_spec.column_names) if list(mm.model_spec.column_names).count(n) > 1]
                    if dup == ["Intercept"] and nlit >= 2:
                        out.fail("c20.constant_terms_share_name", f"{f!r} wrt {wrt}: {nlit} literal-only derivative terms are all named 'Intercept'; the pandas output keeps one column of {sum(c.shape[1] for c in dc)}")
                    else:
                        out.fail("c20.pandas_columns_lost", f"{f!r} wrt {wrt}: pandas output has {pm.shape[1]} columns, numpy output {sum(c.shape[1] for c in dc)}")
            except Exception as e:  # noqa: BLE001
                out.fail("c20.materialize_raised", f"{f!r} wrt {wrt} pandas output: {type(e).__name__}: {str(e)[:150]}")
    return out


PINNED = [
    ("derivative", {"terms": [["a"], ["a", "b"]], "icpt": True, "ordering": "degree", "wrt": ["a"],
                    "data": {v: [1.0, 2.0, -1.0, 0.0, 3.0, 2.0] for v in V}}),
    ("derivative", {"terms": [["a", "b"]], "icpt": False, "ordering": "degree", "wrt": ["a", "a"],
                    "data": {v: [1.0, 2.0, -1.0, 0.0, 3.0, 2.0] for v in V}}),
]
SUBS = {"derivative": Sub(judge=judge, gen=gen_case, quick=4000, thorough=150_000, min_decided=300)}
