"""C19 - Structured, LayeredMapping and formula containers obey their container laws."""

from __future__ import annotations

import copy
import random

from ..core import Outcome, Sub

ID = "C19"
DESIGN_REF = "DESIGN.md section 4 / C19"
TECHNIQUE = "runtime monitoring: model-based history monitors (nested dict/tuple model, top-first dict merge, list model) over random operation sequences on the real classes + class-invariant probe"
LEVEL_TEXT = (
    "Random nestings and random operation histories are executed on the real Structured, LayeredMapping and SimpleFormula "
    "classes side by side with small executable models (plain nested dict/tuple; top-first dictionary merge with a private "
    "write layer; a Python list plus the ordering invariant); after every operation the observable state must agree with the "
    "model. Thousands of histories per run; held-on-observed."
)
LEVEL_NOTE = "trusts: the three reference models in this file (each < 40 lines) and Python's dict/list semantics"
RULE = (
    "structured: random nestings (depth <= 4) of keys, tuples, tuples in tuples and nested Structured; layered: 0-4 layers with "
    "overlapping keys x 1-20 random get/set/del/len/iter/contains/named-lookup operations; formula: random initial terms x 1-14 "
    "insert/append/setitem/delitem/pop/extend/remove/reverse operations x ordering in {none, degree, sort}. distinct = "
    "(skeleton shape) / (layer key pattern, op sequence) / (ordering, op sequence, degree pattern)"
)
ASSUMPTIONS = [
    "leaves and mapped values are never tuples or Structured instances (those are structure by the container's own semantics)",
    "for ordering='degree' and 'sort' the law is multiset preservation + the ordering invariant (stability is not part of the property)",
]

KEYS = ["root", "a", "b", "lhs", "rhs", "k1"]

# ------------------------------------------------------------------ Structured


def gen_value(rng, d, counter):
    r = rng.random()
    if d <= 0 or r < 0.4:
        counter[0] += 1
        return ["L", counter[0]]
    if r < 0.7:
        return {"t": [gen_value(rng, d - 1, counter) for _ in range(rng.randint(1, 3))]}
    return {"d": {k: gen_value(rng, d - 1, counter) for k in rng.sample(KEYS, rng.randint(1, 3))}}


def gen_structured(rng: random.Random, tier: str) -> dict:
    counter = [0]
    m = {k: gen_value(rng, rng.choice([1, 2, 3, 3, 4]), counter) for k in rng.sample(KEYS, rng.randint(1, 3))}
    upd = {k: gen_value(rng, 1, counter) for k in rng.sample(KEYS, rng.randint(1, 2))}
    return {"model": m, "update": upd, "raise_at": rng.randrange(64)}


class Leaf:
    """Opaque leaf object (never a tuple / Structured)."""

    def __init__(self, ident):
        self.ident = ident

    def __eq__(self, other):
        return isinstance(other, Leaf) and other.ident == self.ident

    def __hash__(self):
        return hash(self.ident)

    def __repr__(self):
        return f"L{self.ident}"


def build(v):
    from formulaic.utils.structured import Structured

    if isinstance(v, list):
        return Leaf(v[1])
    if "t" in v:
        return tuple(build(x) for x in v["t"])
    d = v["d"]
    kw = {k: build(x) for k, x in d.items() if k != "root"}
    if "root" in d:
        return Structured(build(d["root"]), **kw)
    return Structured(**kw)


def model_leaves(v):
    """Leaves in the documented flatten order (Structured stores keyword children before... observed via _structure order)."""
    if isinstance(v, list):
        return [Leaf(v[1])]
    if "t" in v:
        return [x for c in v["t"] for x in model_leaves(c)]
    return [x for c in v["d"].values() for x in model_leaves(c)]


def model_skeleton(v):
    if isinstance(v, list):
        return "*"
    if "t" in v:
        return tuple(model_skeleton(c) for c in v["t"])
    return {k: model_skeleton(c) for k, c in v["d"].items()}


def skeleton(obj):
    from formulaic.utils.structured import Structured

    if isinstance(obj, Structured):
        return {k: skeleton(v) for k, v in obj._structure.items()}
    if isinstance(obj, tuple):
        return tuple(skeleton(v) for v in obj)
    return "*"


def leaves_any(o):
    from formulaic.utils.structured import Structured

    if isinstance(o, Structured):
        return list(o._flatten())
    if isinstance(o, tuple):
        return [x for v in o for x in leaves_any(v)]
    return [o]


def ordered_leaves(obj):
    """Leaves in the order of the container's own `_structure` (keys in stored order, tuples left to right)."""
    from formulaic.utils.structured import Structured

    if isinstance(obj, Structured):
        return [x for v in obj._structure.values() for x in ordered_leaves(v)]
    if isinstance(obj, tuple):
        return [x for v in obj for x in ordered_leaves(v)]
    return [obj]


def judge_structured(case) -> Outcome:
    from formulaic.utils.structured import Structured

    out = Outcome()
    m = {"d": case["model"]}
    out.sig = repr(model_skeleton(m))
    s = build(m)
    L = model_leaves(m)
    fl = list(s._flatten())
    if sorted(map(repr, fl)) != sorted(map(repr, L)):
        out.fail("c19.flatten_leaves", f"_flatten yields {fl}, model leaves {L} for {case['model']}")
        return out
    if fl != ordered_leaves(s):
        out.fail("c19.flatten_order", f"_flatten order {fl} != structure order {ordered_leaves(s)}")
    if skeleton(s) != {k: model_skeleton(v) for k, v in case["model"].items()}:
        out.fail("c19.shape_built", f"built skeleton {skeleton(s)} != model {model_skeleton(m)}")
    visited = []

    def f(x):
        visited.append(x)
        return Leaf(("m", x.ident))

    mapped = s._map(f)
    # a function that takes the context too and fails on one leaf: the map stops there, having shown it each leaf once
    if fl:
        stop_at = fl[case.get("raise_at", 0) % len(fl)]
        seen2 = []

        def g(x, ctx=None):
            seen2.append(x)
            if x is stop_at:
                raise TypeError("refused by the mapped function")
            return x

        try:
            s._map(g)
            out.fail("c19.map_swallowed_error", "a TypeError raised by the mapped function did not propagate")
        except TypeError:
            pass
        if seen2 != fl[: fl.index(stop_at) + 1]:
            out.fail("c19.map_visits", f"_map with a function failing at leaf {stop_at} visited {seen2}; expected each leaf once up to it: {fl[: fl.index(stop_at) + 1]}")
    if visited != fl:
        out.fail("c19.map_visits", f"_map visited {visited} but _flatten order is {fl}")
    if skeleton(mapped) != skeleton(s):
        out.fail("c19.map_shape", f"_map changed shape: {skeleton(mapped)} vs {skeleton(s)}")
    if list(mapped._flatten()) != [Leaf(("m", x.ident)) for x in fl]:
        out.fail("c19.map_values", "mapped leaves are not f(leaf) in flatten order")
    simp = s._simplify()
    if leaves_any(simp) != fl:
        out.fail("c19.simplify_leaves", f"_simplify changed leaves: {leaves_any(simp)} vs {fl}")
    if isinstance(simp, Structured):
        simp2 = simp._simplify()
        if skeleton(simp2) != skeleton(simp) or leaves_any(simp2) != leaves_any(simp):
            out.fail("c19.simplify_idempotent", f"{skeleton(simp)} -> {skeleton(simp2)}")

    def from_dict(dd):
        if isinstance(dd, dict):
            kw = {k: from_dict(v) for k, v in dd.items() if k != "root"}
            return Structured(from_dict(dd["root"]), **kw) if "root" in dd else Structured(**kw)
        if isinstance(dd, tuple):
            return tuple(from_dict(v) for v in dd)
        return dd

    rt = from_dict(s._to_dict())
    if skeleton(rt) != skeleton(s) or list(rt._flatten()) != fl or rt != s:
        out.fail("c19.to_dict_roundtrip", f"{s._to_dict()}")
    # update == dict merge of the structure
    upd = case["update"]
    kw = {k: build(v) for k, v in upd.items() if k != "root"}
    if "root" in upd:
        kw["root"] = build(upd["root"])
    u = s._update(**kw)
    mm = {**case["model"], **upd}
    if set(u._structure) != set(mm) or any(skeleton(u._structure[k]) != model_skeleton(mm[k]) for k in mm):
        out.fail("c19.update_merge", f"_update({list(upd)}) gave {skeleton(u)} expected {({k: model_skeleton(v) for k, v in mm.items()})}")
    elif sorted(map(repr, leaves_any(u))) != sorted(map(repr, model_leaves({"d": mm}))):
        out.fail("c19.update_leaves", "leaves after _update differ from dict-merge model")
    if list(s._flatten()) != fl:
        out.fail("c19.update_mutated_original", "original changed by _update/_map/_simplify")
    # merge: disjoint keys => union; same keys with list leaves => concatenation is covered by repo tests; here skeleton law
    other_keys = [k for k in KEYS if k not in case["model"]]
    if other_keys:
        o = Structured(**{other_keys[0] if other_keys[0] != "root" else "zz": Leaf("o")})
        try:
            mg = Structured._merge(s, o)
            if set(mg._structure) != set(s._structure) | set(o._structure):
                out.fail("c19.merge_keys", f"merge keys {set(mg._structure)}")
            if list(mg._flatten())[: len(fl)] != fl and sorted(map(repr, mg._flatten())) != sorted(map(repr, fl + [Leaf('o')])):
                out.fail("c19.merge_leaves", "merge lost or reordered leaves")
            out.see("merge_checked")
        except Exception as e:  # noqa: BLE001
            out.fail("c19.merge_raised", f"{type(e).__name__}: {e}")
    return out


# ------------------------------------------------------------------ Structured: merge == recursive dictionary merge; path lookups


def gen_merge_value(rng, d, counter):
    r = rng.random()
    if d <= 0 or r < 0.45:
        counter[0] += 1
        return ["L", counter[0]]
    if r < 0.7:
        return {"t": [gen_merge_value(rng, 0, counter) for _ in range(rng.randint(1, 3))]}
    return {"d": {k: gen_merge_value(rng, d - 1, counter) for k in rng.sample(KEYS, rng.randint(1, 3))}}


def gen_merge(rng: random.Random, tier: str) -> dict:
    counter = [0]
    return {"objs": [{k: gen_merge_value(rng, 2, counter) for k in rng.sample(KEYS, rng.randint(1, 3))} for _ in range(rng.randint(2, 3))]}


def build_lists(v):
    """Like build(), but leaves are one-element lists (which the default merger concatenates)."""
    from formulaic.utils.structured import Structured

    if isinstance(v, list):
        return [v[1]]
    if "t" in v:
        return tuple(build_lists(x) for x in v["t"])
    d = v["d"]
    kw = {k: build_lists(x) for k, x in d.items() if k != "root"}
    return Structured(build_lists(d["root"]), **kw) if "root" in d else Structured(**kw)


class Misaligned(Exception):
    pass


def model_merge(values):
    """Reference: merge of JSON model values (leaf lists concatenate, tuples concatenate, dicts merge key-wise)."""
    if len(values) == 1:
        return as_plain(values[0])
    kinds = {"t" if isinstance(v, dict) and "t" in v else "d" if isinstance(v, dict) else "L" for v in values}
    if "t" in kinds and kinds != {"t"}:
        raise Misaligned()
    if kinds == {"t"}:
        return tuple(as_plain(x) for v in values for x in v["t"])
    if kinds == {"L"}:
        return [v[1] for v in values]
    keys = {}
    for v in values:
        if isinstance(v, dict):
            for k, x in v["d"].items():
                keys.setdefault(k, []).append(x)
        else:
            keys.setdefault("root", []).append(v)
    return {k: model_merge(xs) for k, xs in keys.items()}


def as_plain(v):
    if isinstance(v, list):
        return [v[1]]
    if "t" in v:
        return tuple(as_plain(x) for x in v["t"])
    return {k: as_plain(x) for k, x in v["d"].items()}


def plain_of(obj):
    from formulaic.utils.structured import Structured

    if isinstance(obj, Structured):
        return {k: plain_of(v) for k, v in obj._structure.items()}
    if isinstance(obj, tuple):
        return tuple(plain_of(v) for v in obj)
    return obj


def judge_merge(case) -> Outcome:
    from formulaic.utils.structured import Structured

    out = Outcome()
    models = [{"d": m} for m in case["objs"]]
    out.sig = repr([model_skeleton(m) for m in models])
    objs = [build_lists(m) for m in models]
    snap = [plain_of(o) for o in objs]
    try:
        exp = model_merge(models)
        misaligned = False
    except Misaligned:
        exp, misaligned = None, True
    try:
        got = Structured._merge(*objs)
        if misaligned:
            out.fail("c19.merge_misaligned_accepted", f"merging {snap} should raise (tuple vs non-tuple substructure) but gave {plain_of(got)}")
        elif plain_of(got) != exp:
            out.fail("c19.merge_dict_law", f"merge of {snap} gave {plain_of(got)} expected {exp}")
    except ValueError as e:
        if not misaligned:
            out.fail("c19.merge_raised", f"{snap}: ValueError {e}")
        else:
            out.see("misaligned_rejected")
    except Exception as e:  # noqa: BLE001
        out.fail("c19.merge_raised", f"{snap}: {type(e).__name__}: {e}")
    if [plain_of(o) for o in objs] != snap:
        out.fail("c19.merge_mutated_inputs", "merge changed its arguments")
    # path lookups on the first object: every leaf reachable by its path; keys by attribute and item
    s = objs[0]

    def paths(obj, p=()):
        if isinstance(obj, Structured):
            for k, v in obj._structure.items():
                yield from paths(v, p + (k,))
        elif isinstance(obj, tuple):
            for i, v in enumerate(obj):
                yield from paths(v, p + (i,))
        else:
            yield p, obj

    for p, leaf in paths(s):
        try:
            if s[p] is not leaf:
                out.fail("c19.path_lookup", f"s[{p}] is not the leaf at that path")
        except Exception as e:  # noqa: BLE001
            out.fail("c19.path_lookup", f"s[{p}]: {type(e).__name__}: {e}")
    for k, v in s._structure.items():
        if getattr(s, k) is not v or (k in s) is not True:
            out.fail("c19.key_lookup", f"attribute/contains lookup of key {k!r}")
    if len(s) != len(list(s)):
        out.fail("c19.len_iter", "len != number of iterated items")
    # writes: by key, by attribute and by path replace exactly that entry (on a copy built from the same model)
    s2 = build_lists(models[0])
    keys = list(s2._structure)
    k0 = keys[0]
    before = plain_of(s2)
    try:
        if k0 != "root":
            s2[k0] = ["new"]
            exp = dict(before)
            exp[k0] = ["new"]
            if plain_of(s2) != exp:
                out.fail("c19.setitem", f"s[{k0!r}] = v changed {before} into {plain_of(s2)}")
            setattr(s2, k0, ["newer"])
            exp[k0] = ["newer"]
            if plain_of(s2) != exp or s2[k0] != ["newer"]:
                out.fail("c19.setattr", f"s.{k0} = v gave {plain_of(s2)}")
        for bad in ("_private", "not an identifier", 3):
            try:
                s2[bad] = 1
                out.fail("c19.setitem_invalid_key", f"s[{bad!r}] = 1 was accepted")
            except KeyError:
                pass
        nested = [(p, leaf) for p, leaf in paths(s) if len(p) >= 2 and isinstance(p[-1], str)]
        if nested:
            p, _ = nested[0]
            s3 = build_lists(models[0])
            s3[p] = ["deep"]
            if s3[p] != ["deep"]:
                out.fail("c19.setitem_path", f"s[{p}] = v not stored")
            others = [(q, leaf) for q, leaf in paths(s3) if q != p]
            if [q for q, _ in others] != [q for q, _ in paths(s) if q != p]:
                out.fail("c19.setitem_path", f"s[{p}] = v disturbed other paths")
        if any(k != "root" for k in s._structure):  # (a root-only structure forwards item access to its root)
            try:
                s["no_such_key"]
                out.fail("c19.getitem_missing", "lookup of a missing key did not raise")
            except KeyError:
                pass
        if "root" in s._structure and len(s._structure) > 1 and s[None] is not s._structure["root"]:
            out.fail("c19.getitem_root", "s[None] is not the root")
        repr(s), str(s)
    except Exception as e:  # noqa: BLE001
        out.fail("c19.structured_write_raised", f"{plain_of(s2)}: {type(e).__name__}: {e}")
    return out


# ------------------------------------------------------------------ LayeredMapping

LKEYS = list("abcdef")


def gen_layered(rng: random.Random, tier: str) -> dict:
    nl = rng.randint(0, 4)
    layers = [{k: (None if rng.random() < 0.25 else [i, k]) for k in rng.sample(LKEYS, rng.randint(0, 4))} for i in range(nl)]  # None is a value like any other
    names = [rng.choice([None, f"n{i}"]) for i in range(nl)]
    ops = []
    for step in range(rng.randint(1, 20)):
        op = rng.choice(["set", "set", "del", "get", "len", "iter", "contains", "layer_name", "with_layers", "with_layers_append", "with_layers_inplace"])
        ops.append([op, rng.choice(LKEYS), step])
    # some supplied layers are mappings with a default for missing keys (defaultdict / Counter): a read must not trigger it
    return {"layers": layers, "names": names, "ops": ops, "defaulting": [rng.random() < 0.25 for _ in range(nl)]}


def judge_layered(case) -> Outcome:
    from formulaic.utils.layered_mapping import LayeredMapping

    out = Outcome()
    out.sig = (tuple(tuple(sorted(layer)) for layer in case["layers"]), tuple((o[0], o[1]) for o in case["ops"]))
    import collections

    layers = [(collections.defaultdict(lambda: ["made-up"], layer) if dflt else dict(layer))
              for layer, dflt in zip(case["layers"], case.get("defaulting") or [False] * len(case["layers"]))]
    snap = [dict(layer) for layer in copy.deepcopy([dict(x) for x in layers])]
    named = [layer if n is None else (layer, n) for layer, n in zip(layers, case["names"])]
    try:
        lm = LayeredMapping(*[x if not isinstance(x, tuple) else x for x in layers])
    except Exception as e:  # noqa: BLE001
        out.fail("c19.layered_ctor", f"{type(e).__name__}: {e}")
        return out
    # the same stack with some layers wrapped as *named* layers
    lmn = LayeredMapping(*[LayeredMapping(layer, name=n) if n is not None else layer
                           for layer, n in zip(layers, case["names"])])
    mut: dict = {}

    top_extra: list = []  # layers prepended in place (highest priority below the private layer)
    bottom_extra: list = []
    children: list = []  # (derived mapping, extra layer, prepend) - must keep tracking the live parent

    def view():
        d = {}
        for layer in reversed(top_extra + layers + bottom_extra):
            d.update(layer)
        d.update(mut)
        return d

    for op, k, step in case["ops"]:
        v = view()
        if op == "set":
            val = ["m", step]
            lm[k] = val
            mut[k] = val
        elif op == "del":
            try:
                del lm[k]
                had = True
            except KeyError:
                had = False
            if had != (k in mut):
                out.fail("c19.layered_del", f"del {k!r}: deleted={had} but key in private layer={k in mut}")
            mut.pop(k, None)
        elif op == "get":
            try:
                got = lm[k]
            except KeyError:
                got = KeyError
            if got != v.get(k, KeyError):
                out.fail("c19.layered_get", f"lm[{k!r}] = {got} expected {v.get(k, KeyError)} (layers {layers}, private {mut})")
            if lm.get(k, "dflt") != v.get(k, "dflt"):
                out.fail("c19.layered_get", f"lm.get({k!r}) = {lm.get(k, 'dflt')}")
        elif op == "len":
            if len(lm) != len(v):
                out.fail("c19.layered_len", f"len {len(lm)} expected {len(v)} (layers {layers}, private {mut})")
        elif op == "iter":
            ks = list(lm)
            if set(ks) != set(v) or len(ks) != len(set(ks)):
                out.fail("c19.layered_iter", f"iter {ks} expected keys {sorted(v)}")
            elif dict(lm) != v:
                out.fail("c19.layered_items", f"dict(lm) {dict(lm)} expected {v}")
        elif op == "contains":
            if (k in lm) != (k in v):
                out.fail("c19.layered_contains", f"{k!r} in lm = {k in lm}")
        elif op == "layer_name":
            try:
                val, name = lm.get_with_layer_name(k, default="dflt")
                if val != v.get(k, "dflt"):
                    out.fail("c19.layered_named_lookup", f"get_with_layer_name({k!r}) value {val} expected {v.get(k, 'dflt')}")
                out.see("named_lookups")
            except Exception as e:  # noqa: BLE001
                out.fail("c19.layered_named_lookup", f"{type(e).__name__}: {e}")
        elif op == "with_layers":
            extra = {k: ["x", step]}
            try:
                lm2 = lm.with_layers(extra)
                exp = dict(v)
                exp.update(extra)
                if dict(lm2) != exp:
                    out.fail("c19.layered_with_layers", f"with_layers gave {dict(lm2)} expected {exp}")
                children.append((lm.with_layers(dict(extra)), dict(extra), True))
                lm2["zz"] = 1
                if "zz" in lm or "zz" in extra:
                    out.fail("c19.layered_write_leak", "write to derived mapping leaked into parent or supplied layer")
                if dict(lm) != v:
                    out.fail("c19.layered_with_layers", "with_layers changed the parent")
            except Exception as e:  # noqa: BLE001
                out.fail("c19.layered_with_layers", f"{type(e).__name__}: {e}")
        elif op == "with_layers_append":
            extra = {k: ["x", step], "zq": ["x", step]}
            lm2 = lm.with_layers(extra, prepend=False)
            exp = dict(extra)
            exp.update(v)
            if dict(lm2) != exp:
                out.fail("c19.layered_with_layers", f"with_layers(prepend=False) gave {dict(lm2)} expected {exp}")
            if dict(lm) != v:
                out.fail("c19.layered_with_layers", "with_layers(prepend=False) changed the parent")
            children.append((lm.with_layers(dict(extra), prepend=False), dict(extra), False))
        elif op == "with_layers_inplace":
            extra = {k: ["y", step]}
            pre = step % 2 == 0
            same_obj = lm.with_layers(extra, prepend=pre, inplace=True)
            (top_extra if pre else bottom_extra).insert(0 if pre else len(bottom_extra), extra)
            if same_obj is not lm or dict(lm) != view():
                out.fail("c19.layered_with_layers", f"with_layers(inplace=True, prepend={pre}) gave {dict(lm)} expected {view()}")
            if extra != {k: ["y", step]}:
                out.fail("c19.layered_supplied_layer_mutated", "layer supplied to with_layers(inplace=True) was mutated")
        # a mapping derived earlier is the merge of (its extra layer, the *live* parent)
        for child, extra_c, pre in children:
            pv = view()
            exp_c = {**pv, **extra_c} if pre else {**extra_c, **pv}
            if dict(child) != exp_c or len(child) != len(exp_c):
                out.fail("c19.layered_child_stale", f"after {op} {k!r} on the parent, a mapping derived earlier by with_layers(prepend={pre}) shows {dict(child)} but the merge of its layers is {exp_c}")
                children.clear()
                break
        if [dict(x) for x in layers] != snap:
            out.fail("c19.layered_supplied_layer_mutated", f"supplied layers changed: {[dict(x) for x in layers]} != {snap} after {op} {k}")
            break
    for k in LKEYS:
        holders = [i for i, layer in enumerate(layers) if k in layer]
        val, lname = lmn.get_with_layer_name(k, default="dflt")
        if not holders:
            if (val, lname) != ("dflt", None):
                out.fail("c19.layered_layer_name", f"absent key {k!r}: {(val, lname)}")
            continue
        top = holders[0]
        if val != layers[top][k] or lname != case["names"][top]:
            out.fail("c19.layered_layer_name", f"key {k!r}: got {(val, lname)}, expected value from layer {top} named {case['names'][top]!r}")
        if lmn.get_layer_name_for_key(k) != case["names"][top]:
            out.fail("c19.layered_layer_name", f"get_layer_name_for_key({k!r})")
        # the same lookup with the default default (None), which is also a legitimate stored value
        val0, lname0 = lmn.get_with_layer_name(k)
        if val0 != layers[top][k] or lname0 != case["names"][top]:
            out.fail("c19.layered_layer_name", f"key {k!r} (stored value {layers[top][k]!r}): get_with_layer_name without default gives {(val0, lname0)}, expected layer {top} named {case['names'][top]!r}")
        sentinel = layers[top][k]
        if sentinel is not None and lmn.get_with_layer_name(k, default=sentinel)[1] != case["names"][top]:
            out.fail("c19.layered_layer_name", f"key {k!r}: passing the stored value itself as default changes the reported layer")
        out.see("named_layer_checks")
    if set(lmn.named_layers) != {n for n in case["names"] if n is not None}:
        out.fail("c19.layered_named_layers", f"named_layers {set(lmn.named_layers)} vs {case['names']}")
    if [dict(x) for x in layers] != snap:
        out.fail("c19.layered_supplied_layer_mutated", "supplied layers changed by named lookups")
    return out


# ------------------------------------------------------------------ SimpleFormula as a mutable sequence

FACT = list("abcdefg")


def rterm(rng):
    k = rng.choice([0, 1, 1, 2, 3])
    if k == 0:
        return ["1"]
    fs = rng.sample(FACT, k)
    if rng.random() < 0.15:
        fs.insert(0, "2")
    return fs


def gen_formula(rng: random.Random, tier: str) -> dict:
    ops = []
    for _ in range(rng.randint(1, 14)):
        op = rng.choice(["insert", "append", "set", "set", "del", "pop", "extend", "remove", "reverse", "slice_del", "slice_get", "slice_set", "iadd", "copy_edit"])
        ops.append([op, rng.random(), [rterm(rng) for _ in range(rng.randint(0, 3))] if op in ("extend", "slice_set", "iadd") else rterm(rng)])
    return {"ordering": rng.choice(["none", "degree", "sort", "sort"]),
            "init": [rterm(rng) for _ in range(rng.randint(0, 6))], "ops": ops}


def mk_term(fs):
    from formulaic.parser.types import Factor, Term

    return Term([Factor(f, eval_method="literal") if f.isdigit() else Factor(f) for f in fs])


def tkey(t):
    return tuple(sorted(f.expr for f in t.factors))


def judge_formula(case) -> Outcome:
    from formulaic.formula import SimpleFormula

    out = Outcome()
    ordering = case["ordering"]
    out.sig = (ordering, tuple(len(t) for t in case["init"]), tuple((o[0], len(o[2])) for o in case["ops"]))
    init = [mk_term(t) for t in case["init"]]
    f = SimpleFormula(list(init), _ordering=ordering)
    model = list(init)

    def check(where):
        if ordering == "none":
            if [tkey(t) for t in f] != [tkey(t) for t in model]:
                out.fail("c19.formula_sequence", f"{where}: formula {list(f)} != list model {model}")
                return False
            return True
        if sorted(tkey(t) for t in f) != sorted(tkey(t) for t in model):
            out.fail("c19.formula_multiset", f"{where}: formula {list(f)} lost/gained terms vs model {model}")
            return False
        degs = [t.degree for t in f]
        if degs != sorted(degs):
            out.fail("c19.formula_order_invariant", f"{where} ({ordering}): degrees {degs} not non-decreasing: {list(f)}")
            return False
        if ordering == "sort":
            keys = [(t.degree, sorted(x.expr for x in t.factors)) for t in f]
            if keys != sorted(keys):
                out.fail("c19.formula_order_invariant", f"{where} (sort): {list(f)} is not sorted")
                return False
            if any([x.expr for x in t.factors] != sorted(x.expr for x in t.factors) for t in f):
                out.fail("c19.formula_order_invariant", f"{where} (sort): factors inside a term are not sorted: {list(f)}")
                return False
        return True

    if not check("init"):
        return out
    model = list(f) if ordering != "none" else model
    for op, r, arg in case["ops"]:
        try:
            n = len(model)
            if op == "insert":
                i = int(r * (2 * n + 5)) - (n + 2)  # negative and out-of-range positions too (list.insert semantics)
                t = mk_term(arg)
                f.insert(i, t)
                model.insert(i, t)
            elif op == "append":
                t = mk_term(arg)
                f.append(t)
                model.append(t)
            elif op == "set" and n:
                i = int(r * 2 * n) - n  # negative indices too
                t = mk_term(arg)
                f[i] = t
                model[i] = t
            elif op == "del" and n:
                i = int(r * 2 * n) - n
                del f[i]
                del model[i]
            elif op == "slice_del" and n:
                i = int(r * n)
                del f[i: i + 2]
                del model[i: i + 2]
            elif op == "pop" and n:
                a = f.pop()
                b = model.pop()
                if tkey(a) != tkey(b):
                    out.fail("c19.formula_pop", f"pop returned {a} expected {b}")
            elif op == "extend":
                ts = [mk_term(x) for x in arg]
                f.extend(ts)
                model.extend(ts)
            elif op == "slice_set":  # replacement of a (possibly empty, possibly longer or shorter) slice
                i, j = sorted((int(r * (n + 1)), int((r * 7919) % 1 * (n + 1))))
                ts = [mk_term(x) for x in arg]
                f[i:j] = ts if r < 0.5 else iter(ts)
                model[i:j] = ts
            elif op == "iadd":
                ts = [mk_term(x) for x in arg]
                f += ts
                model += ts
            elif op == "copy_edit":  # a copy is a sequence of its own: editing it leaves the original as it was
                import copy

                g = copy.copy(f) if r < 0.6 else copy.deepcopy(f)
                g.insert(0, mk_term(arg))
                gd = [t.degree for t in g]
                if len(g) != n + 1 or (ordering != "none" and gd != sorted(gd)) or getattr(g.ordering, "value", g.ordering) != ordering:
                    out.fail("c19.formula_copy", f"copy of {list(f)} after insert: {list(g)} (ordering {g.ordering})")
                out.see("copies_edited")
            elif op == "remove" and n:
                t = model[int(r * n)]
                f.remove(t)
                model.remove(t)
            elif op == "reverse":
                f.reverse()
                model.reverse()
            elif op == "slice_get" and n:
                i, j = sorted((int(r * n), int((r * 7919) % 1 * (n + 1))))
                sub = f[i:j]
                if [tkey(t) for t in sub] != [tkey(t) for t in list(f)[i:j]] or getattr(sub.ordering, "value", sub.ordering) != ordering:
                    out.fail("c19.formula_slice", f"f[{i}:{j}] = {list(sub)} (ordering {sub.ordering}) vs {list(f)[i:j]}")
                if any((t in f) is not True for t in list(f)) or f.index(list(f)[0]) != 0 and tkey(list(f)[0]) not in [tkey(x) for x in list(f)[:1]]:
                    out.fail("c19.formula_contains", "membership/index inconsistent")
                continue
            else:
                continue
        except Exception as e:  # noqa: BLE001
            out.fail("c19.formula_op_raised", f"{op}: {type(e).__name__}: {e}")
            return out
        if len(f) != len(model):
            out.fail("c19.formula_len", f"after {op}: len {len(f)} expected {len(model)}")
            return out
        if not check(f"after {op}"):
            return out
        if ordering != "none":
            model = list(f)
        out.see("ops_checked")
    return out


PINNED = [
    ("structured", {"model": {"root": {"t": [["L", 1], {"t": [["L", 2], ["L", 3]]}]}}, "update": {"a": ["L", 9]}}),
    ("formula", {"ordering": "sort", "init": [["b"], ["c"], ["d"], ["a", "b"]], "ops": [["set", 0.3, ["z"]]]}),
]

SUBS = {
    "structured": Sub(judge=judge_structured, gen=gen_structured, quick=10000, thorough=200_000, min_decided=500),
    "merge": Sub(judge=judge_merge, gen=gen_merge, quick=4000, thorough=150_000, min_decided=500),
    "layered": Sub(judge=judge_layered, gen=gen_layered, quick=10000, thorough=200_000, min_decided=500),
    "formula": Sub(judge=judge_formula, gen=gen_formula, quick=10000, thorough=200_000, min_decided=500),
}
