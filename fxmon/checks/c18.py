"""C18 - materialization is pure and deterministic across calls, histories and hash seeds."""

from __future__ import annotations

import copy
import json
import os
import pickle
import random
import subprocess
import sys

import numpy as np

from .. import VERIF_DIR
from ..core import Outcome, Sub
from ..data import colnames, dense, digest, make_frame, quiet

ID = "C18"
DESIGN_REF = "DESIGN.md section 4 / C18"
TECHNIQUE = "runtime monitoring: history monitor with an isolated-process reference - a random interleaving of builds and spec reuses on shared objects (process A) versus the same calls in shuffled order on freshly rebuilt objects in a fresh interpreter under another PYTHONHASHSEED (process B); sha256 digests per call; inputs compared before/after"
LEVEL_TEXT = (
    "Histories of 8-30 interleaved operations (direct builds, shared Formula objects, long-lived materializer objects, fits, replays through fitted / unfitted / "
    "update()d / subset / pickled specs, joint structured builds, repeated calls) over a shared pool of formulas, frames and context "
    "objects are executed by the real code in one process; every call's result is digested (names, value bytes, index, dropped rows). "
    "The same calls are then executed in a shuffled order, each on freshly rebuilt objects, in a fresh interpreter with a different "
    "hash seed: every digest must be bit-identical. Inputs (frames, context lists/arrays, formulas down to each factor's kind) must be deep-equal before "
    "and after, and each pool spec must behave at the end as it did at first. Every spec of the history is also pickled in "
    "process A and restored in process B, where replaying it, looking its terms up through equal term objects and subsetting it "
    "must answer exactly as the original does in A."
)
LEVEL_NOTE = "trusts: sha256 over float64 bytes; subprocess isolation; the symbolic history description being sufficient to rebuild every object"
RULE = (
    "random histories (2-3 frames with/without nulls, 3-5 formulas from stateful/stateless/contrast/spline encodings incl. context-"
    "bound knots and centers, 8-30 ops of 9 kinds, outputs x3) x a PYTHONHASHSEED drawn per history; non-trivial = history with at "
    "least one spec reuse; distinct = (op-kind sequence, formula kinds, hash seed)"
)
ASSUMPTIONS = ["process B rebuilds each object from the symbolic history alone; any dependence on shared state or call order shows as a digest mismatch"]

NUMF = ["x", "center(x)", "scale(x)", "poly(x, 2)", "bs(x, df=4)", "bs(x, knots=kn)", "cr(x, df=3)", "scale(x, center=cval)", "I(x * cval)",
        "{center(x) * center(x)}", "log(p)", "p", "standardize(p)", "bs(p, knots=kn2, degree=2)", "hashed(S, levels=4)",
        "center(`b m`)", "scale(`b m`)", "poly(`b m`, 2)", "`b m`", "I(`b m` * 2)",
        # transforms applied to the caller's own arrays (which must come back untouched)
        "lag(carr)", "center(carr)", "I(carr * 2)", "lag(carr, 2)"]
CATF = ["A", "C(A)", "C(A, contr.sum)", "C(A, contr.helmert)", "S", "C(S, levels=lv)", "B", "C(B, contr.poly)"]


def gen_formula(rng):
    if rng.random() < 0.3:  # categorical-only lattices incl. three-way interactions without their margins
        facs = rng.sample(["A", "B", "S", "G", "C(A)", "C(G, contr.sum)"], rng.randint(2, 4))
        facs = [f for i, f in enumerate(facs) if f.strip("C()").split(",")[0] not in {g.strip("C()").split(",")[0] for g in facs[:i]}]
    elif rng.random() < 0.2:  # one backtick-only column under several (stateful) encodings in the same build
        facs = rng.sample(["center(`b m`)", "scale(`b m`)", "poly(`b m`, 2)", "I(`b m` * 2)", "bs(`b m`, df=4)"], rng.randint(2, 3)) + rng.sample(CATF, rng.randint(0, 1))
    else:
        facs = rng.sample(NUMF, rng.randint(1, 3)) + rng.sample(CATF, rng.randint(0, 3))
    terms = []
    for _ in range(rng.randint(1, 3)):
        terms.append(":".join(rng.sample(facs, rng.randint(1, min(3, len(facs))))))
    terms = list(dict.fromkeys(terms))
    s = " + ".join([rng.choice(["1", "0"])] + terms)
    if rng.random() < 0.2:
        s = f"p ~ {s}" + (" | A" if rng.random() < 0.4 else "")
    if rng.random() < 0.12:  # operators whose operand is itself an interaction (the product appends several factors at once)
        s = rng.choice(["1 + x*A:B", "0 + S*A:B", "1 + A/(B:S)", "p ~ B:S %in% A", "1 + x:(A:B:S)", "0 + A*(B*S)", "1 + G/(A:B) + x"])
    if rng.random() < 0.12:  # every other column, in the order the frame at hand holds them
        s = rng.choice(["p ~ .", "p ~ . + x:A", "p + x ~ 0 + ."])
    return s


def gen_frame(rng, n, nulls, plain=False, p_text=False):
    def nul(v):
        return None if nulls and rng.random() < 0.1 else v

    def cat(levels):
        vals = levels + [rng.choice(levels) for _ in range(n - len(levels))]
        rng.shuffle(vals)
        return vals

    return {"cols": [
        ["x", {"kind": "num", "dtype": "float64", "values": [round(rng.uniform(0.5, 9.5), 4) for _ in range(n)]}],
        # (in some frames `p` holds text: the same formula then treats it as categorical there)
        ["p", {"kind": "text", "dtype": "object", "values": [nul(rng.choice(["lo", "mid", "hi"])) for _ in range(n)]} if p_text else
              {"kind": "num", "dtype": "float64", "values": [nul(round(rng.uniform(1, 3), 4)) for _ in range(n)]}],
        ["b m", {"kind": "num", "dtype": "float64", "values": [round(rng.gauss(70, 10), 3) for _ in range(n)]}],
        ["A", {"kind": "cat", "categories": ["u", "v", "w"], "values": cat(["u", "v", "w"])}],
        ["B", {"kind": "cat", "categories": ["k", "l"], "values": [nul(v) for v in cat(["k", "l"])]}],
        ["S", {"kind": "text", "dtype": "object", "values": cat(["s1", "s2", "s3"])}],
        ["G", {"kind": "cat", "categories": ["g2", "g1"], "values": cat(["g1", "g2"])}],
    ] + ([["b_m", {"kind": "num", "dtype": "float64", "values": [float(i) for i in range(n)]}]] if plain else []),  # what `b m` sanitizes to
        "index": None}


def gen_case(rng: random.Random, tier: str) -> dict:
    formulas = [gen_formula(rng) for _ in range(rng.randint(3, 5))]
    sizes = [20] if any("carr" in f for f in formulas) else [10, 14, 20]  # (the caller's array has 20 entries)
    frames = [gen_frame(rng, rng.choice(sizes), rng.random() < 0.4, rng.random() < 0.4, rng.random() < 0.2) for _ in range(rng.randint(2, 3))]
    for fr in frames[1:]:  # the same columns need not come in the same order in every frame
        if rng.random() < 0.5:
            rng.shuffle(fr["cols"])
    ops, nspec = [], 0
    for _ in range(rng.randint(8, 30)):
        kind = rng.choice(["mm", "mm", "formula_mm", "mat_mm", "fit", "fit", "replay", "replay", "replay", "clone", "unfit", "repeat", "set_mm", "mixed_specs"])
        out = rng.choice(["pandas", "numpy", "sparse"])
        if kind == "mixed_specs":
            if nspec >= 2:  # a structured spec assembled by hand from two existing specs whose missing-data policies differ
                a, b = rng.sample(range(nspec), 2)
                ops.append({"op": "mixed_specs", "a": a, "b": b, "d": rng.randrange(len(frames)), "na": rng.choice([["ignore", "drop"], ["drop", "ignore"], ["drop", "drop"], ["raise", "drop"]])})
        elif kind in ("mm", "formula_mm", "mat_mm", "set_mm"):
            ops.append({"op": kind, "f": rng.randrange(len(formulas)), "d": rng.randrange(len(frames)), "output": out})
            if rng.random() < 0.35:  # the caller does not ask which rows were dropped
                ops[-1]["nodrop"] = True
        elif kind == "fit":
            ops.append({"op": "fit", "f": rng.randrange(len(formulas)), "d": rng.randrange(len(frames)), "output": out, "as": nspec})
            nspec += 1
        elif kind == "unfit":
            ops.append({"op": "unfit", "f": rng.randrange(len(formulas)), "output": out, "as": nspec})
            nspec += 1
        elif kind == "replay" and nspec:
            ops.append({"op": "replay", "spec": rng.randrange(nspec), "d": rng.randrange(len(frames))})
        elif kind == "clone" and nspec:
            ops.append({"op": "clone", "spec": rng.randrange(nspec), "how": rng.choice(["pickle", "update", "deepcopy"]), "as": nspec})
            nspec += 1
        elif kind == "repeat" and ops:
            ops.append(dict(rng.choice([o for o in ops if o["op"] in ("mm", "formula_mm", "mat_mm", "replay", "set_mm")] or [ops[0]])))
    if nspec >= 2 and rng.random() < 0.5:
        # (one more hand-assembled structured spec with differing policies, on a frame that has missing values if there is one)
        a, b = rng.sample(range(nspec), 2)
        withnull = [j for j, fr in enumerate(frames) if any(v is None for _n, c in fr["cols"] for v in c["values"])]
        ops.append({"op": "mixed_specs", "a": a, "b": b, "d": rng.choice(withnull or list(range(len(frames)))), "na": rng.choice([["ignore", "drop"], ["drop", "ignore"], ["raise", "ignore"]])})
    if rng.random() < 0.4:  # the quoted column is capitalised / non-ASCII: spelling must not matter
        ren = rng.choice([{"b m": "B m", "b_m": "B_m"}, {"b m": "Ünit m", "b_m": "Ünit_m"}])
        for fr in frames:
            for c in fr["cols"]:
                c[0] = ren.get(c[0], c[0])
        formulas = [fm.replace("b m", ren["b m"]) for fm in formulas]
    return {"frames": frames, "formulas": formulas, "ops": ops, "hashseed": rng.choice([1, 2, 3, 7, 11, 42, 1234, 99999]),
            "order_seed": rng.randrange(1 << 30)}


def make_ctx():
    return {"kn": [2.5, 5.0, 7.5], "kn2": [3.0, 6.0], "cval": 2.0, "lv": ["s3", "s1", "s2"],
            "carr": np.array([0.5 + 0.25 * i for i in range(20)])}


def result_digest(res, drop):
    parts = list(res._flatten()) if hasattr(res, "_flatten") else [res]
    ds = []
    for p in parts:
        M = np.ascontiguousarray(dense(p), dtype=np.float64)
        idx = [repr(i) for i in p.index] if hasattr(p, "index") and not callable(p.index) else None
        state_keys = sorted(map(str, p.model_spec.transform_state)) + sorted(map(str, p.model_spec.encoder_state))
        ds.append(digest(tuple(colnames(p)), M, idx, sorted(int(i) for i in drop), state_keys))
    return "+".join(ds)


class Pool:
    """Objects of a history. mode 'shared' keeps one instance of everything; mode 'fresh' rebuilds per call."""

    def __init__(self, hist, mode):
        self.h, self.mode = hist, mode
        self.frames = [make_frame(f) for f in hist["frames"]]
        self.forms = {}
        self.specs = {}
        self.mats = {}
        self.ctx = make_ctx()

    def materializer(self, j):
        """One long-lived materializer object per frame in shared mode; a new one per call otherwise."""
        from formulaic.materializers import PandasMaterializer

        if self.mode == "fresh":
            return PandasMaterializer(self.frame(j), context=self.context())
        if j not in self.mats:
            self.mats[j] = PandasMaterializer(self.frame(j), context=self.context())
        return self.mats[j]

    def frame(self, j):
        return self.frames[j] if self.mode == "shared" else make_frame(self.h["frames"][j])

    def context(self):
        return self.ctx if self.mode == "shared" else make_ctx()

    def formula(self, i):
        from formulaic import Formula

        if self.mode == "fresh":
            return Formula(self.h["formulas"][i])
        if i not in self.forms:
            self.forms[i] = Formula(self.h["formulas"][i])
        return self.forms[i]

    def spec(self, k):
        """In fresh mode a spec is rebuilt from its defining op (recursively)."""
        if self.mode == "shared":
            if isinstance(self.specs[k], BaseException):  # defining it failed: using it fails the same way (as it does when rebuilt)
                raise self.specs[k]
            return self.specs[k]
        op = next(o for o in self.h["ops"] if o.get("as") == k)
        return self.define(op)

    def define(self, op):
        from formulaic import ModelSpec, model_matrix

        if op["op"] == "fit":
            with quiet():
                return model_matrix(self.h["formulas"][op["f"]], self.frame(op["d"]), output=op["output"], context=self.context()).model_spec
        if op["op"] == "unfit":
            return ModelSpec.from_spec(self.formula(op["f"]), output=op["output"])
        src = self.spec(op["spec"])
        if op["how"] == "pickle":
            return pickle.loads(pickle.dumps(src))
        if op["how"] == "deepcopy":
            return copy.deepcopy(src)

        def upd(s):
            return s.update(output=s.output)

        return src._map(upd) if hasattr(src, "_map") else upd(src)


def exc_digest(e):
    """A failing call must fail in both processes. When several factors of one call are invalid, which of them is reported
    (evaluation vs encoding error) follows set order - the property fixes values, column order and dropped rows, not that."""
    from formulaic.errors import FormulaicError

    return "EXC:formulaic" if isinstance(e, FormulaicError) else f"EXC:{type(e).__name__}"


def run_history(hist, mode):
    """Execute the calls; returns {op index: digest | 'EXC:<type>'}. mode 'fresh' executes them in shuffled order."""
    from formulaic import model_matrix

    pool = Pool(hist, mode)
    order = list(range(len(hist["ops"])))
    if mode == "fresh":
        random.Random(hist["order_seed"]).shuffle(order)
    digests = {}
    for i in order:
        op = hist["ops"][i]
        drop: set = set()
        dkw = {} if op.get("nodrop") else {"drop_rows": drop}
        try:
            with quiet():
                if op["op"] == "mm":
                    res = model_matrix(hist["formulas"][op["f"]], pool.frame(op["d"]), output=op["output"], context=pool.context(), **dkw)
                elif op["op"] == "formula_mm":
                    res = pool.formula(op["f"]).get_model_matrix(pool.frame(op["d"]), output=op["output"], context=pool.context(), **dkw)
                elif op["op"] == "mat_mm":
                    res = pool.materializer(op["d"]).get_model_matrix(hist["formulas"][op["f"]], output=op["output"], **dkw)
                elif op["op"] == "set_mm":  # the terms handed over as a set (an accepted formula specification)
                    ftxt = hist["formulas"][op["f"]]
                    spec_ = set(ftxt.split(" + ")[1:]) if "~" not in ftxt and "|" not in ftxt else ftxt
                    res = model_matrix(spec_, pool.frame(op["d"]), output=op["output"], context=pool.context(), **dkw)
                elif op["op"] == "mixed_specs":
                    from formulaic import ModelSpecs

                    def leaf_(s_):
                        return next(iter(s_._flatten())) if hasattr(s_, "_flatten") else s_

                    ms_ = ModelSpecs(a=leaf_(pool.spec(op["a"])).update(na_action=op["na"][0]), b=leaf_(pool.spec(op["b"])).update(na_action=op["na"][1]))
                    res = ms_.get_model_matrix(pool.frame(op["d"]), drop_rows=drop, context=pool.context())
                elif op["op"] == "replay":
                    res = pool.spec(op["spec"]).get_model_matrix(pool.frame(op["d"]), drop_rows=drop, context=pool.context())
                else:
                    made = pool.define(op)  # (in fresh mode only to see whether defining it raises there too)
                    if mode == "shared":
                        pool.specs[op["as"]] = made
                    continue
            digests[i] = result_digest(res, drop)
        except Exception as e:  # noqa: BLE001
            digests[i] = exc_digest(e)
            if op["op"] in ("fit", "unfit", "clone") and mode == "shared":
                pool.specs[op["as"]] = e
    return digests, pool


def formula_fingerprint(fobj):
    """Everything a formula object holds: nested structure, term order, and each factor's text, kind, evaluation method, metadata."""
    def leaf(terms):
        return [[(f.expr, f.kind.value, f.eval_method.value, repr(f.metadata), repr(getattr(f, "token", None))) for f in t.factors] for t in terms]

    return repr(fobj._map(leaf) if hasattr(fobj, "_map") else leaf(fobj))


def probe_spec(spec, frame, ctx):
    """What a user can ask of a spec: replay it, look its terms up through equal (newly built) term objects, subset it."""
    from formulaic.parser.types import Term

    res = {}
    try:
        drop: set = set()
        with quiet():
            res["replay"] = result_digest(spec.get_model_matrix(frame, drop_rows=drop, context=ctx), drop)
    except Exception as e:  # noqa: BLE001
        res["replay"] = exc_digest(e)
    leaves = list(spec._flatten()) if hasattr(spec, "_flatten") else [spec]
    for j, leaf in enumerate(leaves):
        try:
            fresh = [Term(t.factors) for t in leaf.formula]
            if leaf.structure:
                res[f"lookup{j}"] = [list(leaf.term_indices[t]) for t in fresh]
                res[f"slices{j}"] = [repr(leaf.get_slice(t)) for t in fresh]
                res[f"subset{j}"] = list(leaf.subset(fresh[:2]).column_names)
            else:
                res[f"member{j}"] = [t in set(leaf.formula) for t in fresh]
        except Exception as e:  # noqa: BLE001
            res[f"meta{j}"] = f"EXC:{type(e).__name__}:{str(e)[:80]}"
    return res


def probe_pickles(payload):
    """Process B: restore the specs pickled by process A and ask the same questions of them."""
    pool = Pool(payload, "fresh")
    return {k: probe_spec(pickle.loads(bytes.fromhex(blob)), pool.frame(0), pool.context()) for k, blob in payload["_pickles"].items()}


def judge(case) -> Outcome:
    out = Outcome()
    kinds = tuple(o["op"] for o in case["ops"])
    if not any(k == "replay" for k in kinds):
        out.sig = None
    else:
        out.sig = (kinds, tuple(sorted(set(case["formulas"]))), case["hashseed"])
    frames_before = [make_frame(f) for f in case["frames"]]
    ctx_before = make_ctx()
    try:
        dA, pool = run_history(case, "shared")
    except Exception as e:  # noqa: BLE001
        out.fail("c18.history_raised", f"{type(e).__name__}: {str(e)[:200]}")
        return out
    # (iii) inputs unchanged
    for j, (a, b) in enumerate(zip(pool.frames, frames_before)):
        if not a.equals(b) or list(a.dtypes) != list(b.dtypes) or not a.index.equals(b.index):
            out.fail("c18.input_data_mutated", f"frame {j} changed during the history")
    if json.dumps(pool.ctx, sort_keys=True, default=repr) != json.dumps(ctx_before, sort_keys=True, default=repr):
        out.fail("c18.context_mutated", f"context objects changed: {pool.ctx} != {ctx_before}")
    from formulaic import Formula

    for i, fobj in pool.forms.items():
        if repr(fobj) != repr(Formula(case["formulas"][i])) or formula_fingerprint(fobj) != formula_fingerprint(Formula(case["formulas"][i])):
            out.fail("c18.formula_mutated", f"shared Formula {case['formulas'][i]!r} changed: {fobj!r}")
    # (ii) repeated identical calls inside A
    seen = {}
    for i, op in enumerate(case["ops"]):
        if i not in dA:
            continue
        key = json.dumps(op, sort_keys=True)
        if key in seen and dA[seen[key]] != dA[i]:
            out.fail("c18.repeat_differs", f"call {op} gave different results at steps {seen[key]} and {i} of the same history")
        seen.setdefault(key, i)
    # (i)+(iv) fresh process, fresh objects, shuffled order, other hash seed
    env = dict(os.environ)
    env["PYTHONHASHSEED"] = str(case["hashseed"])
    env["PYTHONPATH"] = VERIF_DIR + os.pathsep + env.get("PYTHONPATH", "")
    # every spec of the history also crosses the process boundary as a pickle
    probesA, pickles = {}, {}
    for k, sp in sorted(pool.specs.items()):
        if sp is None or isinstance(sp, BaseException):
            continue
        try:
            pickles[str(k)] = pickle.dumps(sp).hex()
        except Exception as e:  # noqa: BLE001
            out.fail("c18.spec_not_picklable", f"spec {k}: {type(e).__name__}: {str(e)[:150]}")
            continue
        probesA[str(k)] = probe_spec(sp, pool.frame(0), pool.context())
    code = ("import sys, json; from fxmon import use_repo; use_repo(); from fxmon.checks import c18; h = json.load(sys.stdin); "
            "d, _ = c18.run_history(h, 'fresh'); print('DIGESTS' + json.dumps(d)); print('PROBES' + json.dumps(c18.probe_pickles(h)))")
    try:
        p = subprocess.run([sys.executable, "-c", code], input=json.dumps(dict(case, _pickles=pickles)), capture_output=True, text=True, env=env, timeout=300, cwd=VERIF_DIR)
        line = next((ln for ln in p.stdout.splitlines() if ln.startswith("DIGESTS")), None)
        if line is None:
            raise RuntimeError(f"no digests from process B: {p.stderr[-300:]}")
        dB = {int(k): v for k, v in json.loads(line[7:]).items()}
        line = next((ln for ln in p.stdout.splitlines() if ln.startswith("PROBES")), None)
        if line is None:
            raise RuntimeError(f"no probes from process B: {p.stderr[-300:]}")
        probesB = json.loads(line[6:])
    except subprocess.TimeoutExpired:
        out.decided = False
        return out
    for i in sorted(dA):
        if dA[i] != dB.get(i):
            op = case["ops"][i]
            what = case["formulas"][op["f"]] if "f" in op else f"spec {op.get('spec')}"
            out.fail("c18.history_dependent", f"step {i} {op} ({what}): digest on shared objects {dA[i][:40]} != digest on fresh objects in a fresh interpreter (hash seed {case['hashseed']}) {str(dB.get(i))[:40]}")
            break
    for k in sorted(probesA):
        a, b = json.loads(json.dumps(probesA[k])), probesB.get(k)
        if a != b:
            diff = sorted(q for q in set(a) | set(b or {}) if a.get(q) != (b or {}).get(q))
            out.fail("c18.restored_spec_differs_in_other_process",
                     f"spec {k} pickled here and restored under hash seed {case['hashseed']} answers differently: {[(q, a.get(q), (b or {}).get(q)) for q in diff][:2]}")
            break
        out.see("pickled_specs_compared")
    out.see("calls_compared", len(dA))
    out.see("histories_with_exceptions", int(any(str(v).startswith("EXC") for v in dA.values())))
    return out


PINNED = [
    ("history", {"frames": [gen_frame(random.Random(1), 10, False), gen_frame(random.Random(2), 10, False)], "formulas": ["1 + center(x)"],
                 "ops": [{"op": "unfit", "f": 0, "output": "numpy", "as": 0}, {"op": "replay", "spec": 0, "d": 0}, {"op": "replay", "spec": 0, "d": 1}],
                 "hashseed": 3, "order_seed": 5}),
    ("history", {"frames": [gen_frame(random.Random(3), 12, False)], "formulas": ["0 + bs(x, knots=kn)"],
                 "ops": [{"op": "mm", "f": 0, "d": 0, "output": "numpy"}, {"op": "mm", "f": 0, "d": 0, "output": "numpy"}, {"op": "mm", "f": 0, "d": 0, "output": "pandas"}],
                 "hashseed": 7, "order_seed": 9}),
]
SUBS = {"history": Sub(judge=judge, gen=gen_case, quick=320, thorough=6000, min_decided=40)}
