"""C02 - every model-matrix column holds exactly the product its name denotes."""

from __future__ import annotations

import random

import numpy as np

from .. import gen
from ..core import Outcome, Sub
from ..data import colnames, dense, make_frame, nrows, quiet

ID = "C02"
DESIGN_REF = "DESIGN.md section 4 / C02"
TECHNIQUE = "runtime monitoring: boundary oracle recomputes every emitted column from its label (independent numpy product x literal scale) + post-condition probe on _get_columns_for_term"
LEVEL_TEXT = (
    "For thousands of random (formula, frame, rank mode, output, materializer) executions every column returned by the real "
    "materializer is recomputed from its own label: sub-labels are mapped to data columns / indicator vectors / my own numpy "
    "evaluation of the Python factor, multiplied together and by the owning term's literal scale; with rank reduction off the "
    "whole name list must be the complete Kronecker enumeration (first factor fastest). Held-on-observed."
)
LEVEL_NOTE = "trusts: numpy arithmetic, my label splitter/evaluator, model_spec.term_indices to find a column's owning term (itself checked by C10)"
RULE = (
    "random frames (1-60 rows, 1-4 categoricals with 1-4 levels, numerics of several magnitudes) x random sets of interaction "
    "terms up to order 4 with shuffled factor order, optional literal scalings and Python-expression factors x rank reduction "
    "on/off x output x materializer; non-trivial = at least one term of order >= 2 or a scaling; distinct = (term shapes by "
    "factor kind, scaling flags, rank mode, output, materializer, intercept)"
)
ASSUMPTIONS = [
    "level labels come from a safe alphabet so that a column name splits unambiguously into factor sub-labels",
    "which columns are emitted under rank reduction is C03's concern; here every emitted column must obey its label",
]


def gen_case(rng: random.Random, tier: str) -> dict:
    n = rng.choice([1, 2, 3, 5, 8, 17, 40, 60])
    cats = rng.sample(gen.CAT_VARS, rng.randint(1, 3))
    nums = rng.sample(gen.NUM_VARS, rng.randint(1, 3))
    frame = gen.rand_frame(rng, n, cats=cats, nums=nums, index=rng.choice(["default", "default", "labels", "ints", "perm"]))
    terms, factors = gen.rand_terms(rng, frame, cats=cats, nums=nums)
    ctx = None
    if rng.random() < 0.25:  # factors whose values come (partly) from the evaluation context
        ctx = {"cv": [round(rng.gauss(0, 1), 5) for _ in range(n)], "k": rng.choice([2.0, -0.5, 3.0])}
        v = nums[0]
        extra = rng.choice([{"text": "cv", "label": "cv", "kind": "num"}, {"text": f"I({v}*k)", "label": f"I({v} * k)", "kind": "num"},
                            {"text": f"{{cv + {v}}}", "label": f"cv + {v}", "kind": "num"}])
        factors["ctx0"] = extra
        t = rng.choice(terms)
        if "ctx0" not in t["factors"]:
            if rng.random() < 0.5 and len(t["factors"]) < 4:
                t["factors"].append("ctx0")
            else:
                terms.append({"scale": None, "scale_pos": 0, "factors": ["ctx0"]})
    icpt = rng.random() < 0.7
    mat = rng.choice(["pandas", "pandas", "narwhals", "base_product"])  # base_product: a subclass that keeps the default product loop
    # whole-number columns held in a (small) integer dtype: the same numbers, so the same products
    for _nm, c in frame["cols"]:
        if c["kind"] == "num" and all(float(v).is_integer() for v in c["values"]) and rng.random() < 0.7:
            c["dtype"] = rng.choice(["int8", "int16", "int32", "int64", "uint8"])
            lo, hi = (0, 200) if c["dtype"] == "uint8" else (-100, 100)
            c["values"] = [float(rng.randint(lo, hi)) for _ in c["values"]]
    if rng.random() < 0.12:
        # one column of unsigned 64-bit counters / hashes beyond the signed range; every other numeric column is a float, and no
        # literal scales, so that no product leaves what the dtype (or a double) can hold
        big = rng.choice([c for _nm, c in frame["cols"] if c["kind"] == "num"])
        for _nm, c in frame["cols"]:
            if c["kind"] == "num":
                c["dtype"] = "float64"
                c["values"] = [float(v) + 0.5 for v in c["values"]] if c is not big else c["values"]
        big["dtype"] = "uint64"
        big["values"] = [float(2 ** 63 + rng.randint(0, 2 ** 20) * 4096) for _ in big["values"]]
        for t in terms:
            t["scale"] = None
            t.pop("scale2", None)
    names_ = {nm for nm, _c in frame["cols"]}
    if mat == "pandas" and rng.random() < 0.12 and ctx is None and all(fa["kind"] == "cat" or (fa["kind"] == "num" and fa["text"] in names_) for fa in factors.values()):
        # a float column held in pandas' sparse extension dtype whose fill value is not zero (most of its entries equal the fill)
        sc = rng.choice([c for _nm, c in frame["cols"] if c["kind"] == "num"])
        if sc.get("dtype", "float64") == "float64":
            fill = rng.choice([1.0, -2.5, 7.0])
            sc["values"] = [fill if rng.random() < 0.7 else v for v in sc["values"]]
            sc["dtype"] = f"sparse:{fill}"
    na = "drop"
    if rng.random() < 0.25:  # missing values kept in the matrix: every product involving one is itself missing
        na = "ignore"
        for _nm, c in frame["cols"]:
            if c["kind"] == "num" and c.get("dtype", "float64") in ("float64",) :
                c["values"] = [None if rng.random() < 0.15 else v for v in c["values"]]
    return {
        "na": na,
        "frame": frame, "terms": terms, "factors": factors, "icpt": icpt,
        "formula": gen.formula_text(terms, factors, icpt, rng),
        "efr": rng.random() < 0.5, "output": rng.choice(["pandas", "numpy", "sparse"] if mat != "base_product" else ["pandas", "numpy"]), "mat": mat, "ctx": ctx,
    }


def expected_subcolumn(part: str, case: dict, cache: dict) -> tuple[np.ndarray, str]:
    """(values, factor key) for one sub-label of a column name."""
    frame = case["frame"]
    for key, fa in case["factors"].items():
        if fa["kind"] == "num" and part == fa["label"]:
            if key not in cache:
                cache[key] = gen.eval_num_label(fa["label"], frame, case.get("ctx"))
            return cache[key], key
        if fa["kind"] == "multi" and part.startswith(fa["label"] + "[") and part.endswith("]") and part[len(fa["label"]) + 1:-1] in fa["fields"]:
            k = int(part[len(fa["label"]) + 1:-1])
            from ..data import col_values

            return np.array([np.nan if v is None else v for v in col_values(frame, fa["base"])], dtype=float) ** (k + 1), key
        if fa["kind"] == "cat" and part.startswith(fa["label"] + "["):
            inner = part[len(fa["label"]) + 1:-1]
            lv = inner[2:] if inner.startswith("T.") else inner
            if lv in fa["levels"] and part.endswith("]"):
                from ..data import col_values

                vals = col_values(frame, fa["var"])
                return np.array([1.0 if v == lv else 0.0 for v in vals]), key
    raise KeyError(part)


SMALL_INTS = ("int8", "int16", "int32", "uint8")


def small_int_product(case, subs, scale, observed) -> bool:
    """True iff the observed column is what multiplying the factors (and the literal scale) in the columns' own fixed-width
    integer dtype gives (finding K9)."""
    dts = [c.get("dtype") for _n, c in case["frame"]["cols"] if c["kind"] == "num" and c.get("dtype") in SMALL_INTS]
    if not dts:
        return False
    try:
        with np.errstate(all="ignore"):
            for dt in dict.fromkeys(dts):
                vals, solo = [], []
                for v, key in subs:
                    fa = case["factors"][key]
                    if fa["kind"] == "num":
                        nat = gen.eval_num_label(fa["label"], case["frame"], case.get("ctx"), native=True)
                    elif fa["kind"] == "cat":
                        nat = v.astype(dt)  # indicator columns take part in the integer arithmetic
                    else:
                        nat = v  # multi-column transforms return floats
                    vals.append(nat)
                    solo.append(fa["kind"] == "num")
                # (the pandas materializer multiplies the single-column factors of a term together first)
                solo_first = [v for v, s_ in zip(vals, solo) if s_] + [v for v, s_ in zip(vals, solo) if not s_]
                for seq in (vals, vals[::-1], solo_first, solo_first[::-1]):
                    prod = seq[0]
                    for v in seq[1:]:
                        prod = np.multiply(prod, v)
                    for sc in ((scale, int(scale)) if float(scale).is_integer() else (scale,)):
                        try:
                            got = np.asarray(sc * prod, float) if isinstance(sc, float) else np.asarray(np.multiply(prod, np.asarray(sc).astype(prod.dtype) if np.asarray(prod).dtype.kind in "iu" else sc), float)
                        except Exception:  # noqa: BLE001
                            continue
                        if np.allclose(got, observed, equal_nan=True):
                            return True
    except Exception:  # noqa: BLE001
        return False
    return False


def judge(case: dict) -> Outcome:
    from formulaic import model_matrix

    out = Outcome()
    shapes = tuple(sorted((tuple(sorted(case["factors"][f]["kind"] for f in t["factors"])), bool(t["scale"])) for t in case["terms"]))
    nontrivial = any(len(t["factors"]) >= 2 or t["scale"] for t in case["terms"])
    out.sig = (shapes, case["efr"], case["output"], case["mat"], case["icpt"], case.get("na", "drop")) if nontrivial else None
    df = make_frame(case["frame"])
    n = nrows(case["frame"])
    try:
        with quiet():
            # context vectors are numpy arrays: a plain Python list as factor value is outside this property ("data columns")
            ctx = {k: (np.array(v) if isinstance(v, list) else v) for k, v in (case.get("ctx") or {}).items()}
            matname = case["mat"]
            if matname == "base_product":
                from ..custom_mat import base_product_materializer_name

                matname = base_product_materializer_name()
            mm = model_matrix(case["formula"], df, ensure_full_rank=case["efr"], output=case["output"],
                              materializer=matname, context=ctx, na_action=case.get("na", "drop"))
    except Exception as e:
        if "out of bounds for" in str(e) and any(c.get("dtype") in SMALL_INTS for _n, c in case["frame"]["cols"]):
            out.fail("c02.small_integer_product_wraps", f"{case['formula']!r}: scaling a small-integer column by a literal raised {type(e).__name__}: {str(e)[:120]}")
            return out
        out.fail("c02.materialization_raised", f"{case['formula']!r}: {type(e).__name__}: {str(e)[:200]}")
        return out
    try:
        M = dense(mm)
    except TypeError as e:
        out.fail("c02.non_numeric_cell", f"{case['formula']!r}: {e}")
        return out
    names = colnames(mm)
    if M.shape != (n, len(names)):
        out.fail("c02.shape", f"{case['formula']!r}: matrix {M.shape} vs {n} rows x {len(names)} names")
        return out
    if case["output"] == "pandas" and case["mat"] == "pandas" and list(mm.columns) != names:
        out.fail("c02.names_vs_labels", f"{case['formula']!r}: frame labels {list(mm.columns)} != spec names {names}")
    # owner term of each column
    owners = {}
    for term, idx in mm.model_spec.term_indices.items():
        for j in idx:
            owners.setdefault(j, []).append(term)
    cache: dict = {}
    for j, name in enumerate(names):
        if name == "Intercept":
            exp, scale = np.ones(n), 1.0
        else:
            parts = gen.split_label(name)
            try:
                subs = [expected_subcolumn(p, case, cache) for p in parts]
            except KeyError as e:
                out.fail("c02.unparseable_label", f"{case['formula']!r}: column {name!r}: no factor matches sub-label {e}")
                return out
            own = owners.get(j, [])
            if len(own) != 1:
                out.fail("c02.no_unique_owner", f"{case['formula']!r}: column {name!r} owned by {own}")
                return out
            lits = [float(f.expr) for f in own[0].factors if f.eval_method.value == "literal"]
            scale = float(np.prod(lits)) if lits else 1.0
            own_labels = {f.expr for f in own[0].factors if f.eval_method.value != "literal"}
            used = {case["factors"][k]["label"] for _, k in subs}
            if not used <= own_labels or len(used) != len(subs):
                out.fail("c02.label_not_in_owner", f"{case['formula']!r}: column {name!r} uses {used}, owner term has {own_labels}")
                return out
            exp = scale * np.prod([v for v, _ in subs], axis=0)
        tol = 1e-9 * max(min(1.0, abs(float(scale))) if scale else 1.0, float(np.nanmax(np.abs(exp))) if n else 1.0)
        if not np.allclose(M[:, j], exp, rtol=1e-9, atol=tol, equal_nan=True) and name != "Intercept" and small_int_product(case, subs, scale, M[:, j]):
            out.fail("c02.small_integer_product_wraps", f"{case['formula']!r} out={case['output']} mat={case['mat']}: column {name!r} = {M[:4, j]} is the product taken in the columns' own integer width; the numbers' product is {exp[:4]}")
            continue
        if not np.allclose(M[:, j], exp, rtol=1e-9, atol=tol, equal_nan=True):
            out.fail("c02.column_value", f"{case['formula']!r} efr={case['efr']} out={case['output']} mat={case['mat']}: column {name!r} = {M[:4, j]} expected {exp[:4]}")
            return out
        out.see("columns_checked")
    if not case["efr"]:
        expn = ["Intercept"] if case["icpt"] else []
        for t in gen.degree_sorted(case["terms"]):
            expn += gen.full_product_names(t, case["factors"])
        if expn != names:
            out.fail("c02.full_product_names", f"{case['formula']!r}: names {names} != complete product {expn}")
        else:
            out.see("full_products_checked")
    return out


def _pin(formula, efr, output="pandas", mat="pandas"):
    frame = {"cols": [["a", {"kind": "num", "dtype": "float64", "values": [1.0, 2.0, 3.0, 4.0]}],
                      ["A", {"kind": "cat", "categories": ["x", "y", "z"], "values": ["x", "y", "z", "x"]}]], "index": None}
    factors = {"a": {"text": "a", "label": "a", "kind": "num"}, "A": {"text": "A", "label": "A", "kind": "cat", "var": "A", "levels": ["x", "y", "z"]}}
    terms = {"0 + 2.5:a": [{"scale": "2.5", "scale_pos": 0, "factors": ["a"]}],
             "0 + 2:A": [{"scale": "2", "scale_pos": 0, "factors": ["A"]}],
             "2:A:a": [{"scale": "2", "scale_pos": 0, "factors": ["A", "a"]}]}[formula]
    return ("columns", {"frame": frame, "terms": terms, "factors": {k: factors[k] for t in terms for k in t["factors"]},
                        "icpt": not formula.startswith("0"), "formula": formula, "efr": efr, "output": output, "mat": mat})


PINNED = [_pin("0 + 2.5:a", False), _pin("0 + 2:A", True), _pin("2:A:a", True), _pin("2:A:a", True, "sparse"), _pin("0 + 2.5:a", False, "numpy", "narwhals")]



def enum_suite(tier: str):
    yield {"run": "repository test-suite with all fxmon probes attached"}


def judge_suite(case) -> Outcome:
    """Run the repository's own tests with every probe attached: a probe that fires there is either too strict or has found
    something the tests do not assert."""
    import json
    import os
    import subprocess
    import sys
    import tempfile

    from .. import REPO_DIR, VERIF_DIR

    out = Outcome()
    out.sig = "suite"
    with tempfile.TemporaryDirectory() as td:
        res = os.path.join(td, "plugin.json")
        env = dict(os.environ, FXMON_PLUGIN_OUT=res, PYTHONPATH=VERIF_DIR + os.pathsep + REPO_DIR, VERIF_REPO_DIR=REPO_DIR)
        p = subprocess.run([sys.executable, "-m", "pytest", "-q", "-p", "no:cacheprovider", "-p", "fxmon.pytest_plugin", "--timeout=900"],
                           cwd=REPO_DIR, env=env, capture_output=True, text=True, timeout=1500)
        if not os.path.exists(res):
            out.decided = False
            out.see("suite_did_not_report")
            return out
        d = json.load(open(res))
    for name, v in d["probes"].items():
        out.see(f"suite.{name}.evaluations", v.get("evaluations", 0))
    for b in d["breaches"][:5]:
        out.fail(b["mech"], f"in repository test {b['test']}: {b['msg']}")
    tail = [ln for ln in p.stdout.splitlines() if " passed" in ln or " failed" in ln]
    out.states.append("suite: " + (tail[-1].strip("= ") if tail else "?"))
    return out


SUBS = {
    "columns": Sub(judge=judge, gen=gen_case, quick=5000, thorough=400_000, min_decided=300),
    "suite_under_probes": Sub(judge=judge_suite, enum=enum_suite, min_decided=1),
}
