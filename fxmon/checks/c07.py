"""C07 - multi-part formulas give row-aligned parts equal to separate builds."""

from __future__ import annotations

import random

import numpy as np

from ..core import Outcome, Sub
from ..data import colnames, dense, make_frame, nrows, quiet, same

ID = "C07"
DESIGN_REF = "DESIGN.md section 4 / C07"
TECHNIQUE = "runtime monitoring: boundary monitor on structured results - shape of result/specs vs formula, common row set, and each part vs a separate build of that part's terms with the jointly dropped rows supplied as the drop set; each leaf spec must regenerate its part"
LEVEL_TEXT = (
    "Random structured formulas (any nesting of ~, |, keyword and tuple structure) whose parts share factors (incl. contrast-coded "
    "and stateful ones, full rank in one part and reduced in another) are materialized jointly by the real code on data with nulls "
    "spread over the variables of different parts; the monitor walks formula, result and spec structures in parallel: same nested "
    "shape, identical row sets, and each part must equal the matrix obtained by materializing that part's terms alone with the "
    "joint drop set, and the matrix its own spec regenerates. Held-on-observed."
)
LEVEL_NOTE = "trusts: Structured._structure traversal by my own walker; numpy allclose"
RULE = (
    "random (1-2 lhs terms, 1-3 '|' parts or keyword/tuple structure, 1-4 terms per part over shared factor encodings incl. "
    "C(v, contr.*) and center/scale/poly/bs on null-free columns, intercept per part on/off, null pattern, output); distinct = "
    "(structure skeleton, per-part term shapes, shared-factor pattern, null pattern, output)"
)
ASSUMPTIONS = ["stateful transforms are applied to null-free columns only (their state is trained on all rows before rows are dropped)"]

ENC = {
    "x": ["x", "{x*2}", "I(x + 1)"], "y": ["y", "log(y)"], "z": ["z", "center(z)", "scale(z)", "poly(z, 2)", "bs(z, df=4)"],
    "A": ["A", "C(A)", "C(A, contr.sum)", "C(A, contr.helmert)", "C(A, contr.poly)", "C(A, contr.diff)", "C(A, contr.treatment(base='v'))"],
    "B": ["B", "C(B, contr.sum)", "C(B, contr.SAS)"], "S": ["S", "C(S)"],
}


def gen_case(rng: random.Random, tier: str) -> dict:
    n = rng.choice([6, 10, 16, 25])
    pnull = rng.choice([0.0, 0.1, 0.2])

    def nul(v):
        return None if rng.random() < pnull else v

    def cat(levels):
        vals = levels + [rng.choice(levels) for _ in range(n - len(levels))]
        rng.shuffle(vals)
        return [nul(v) for v in vals]

    cols = [
        ["x", {"kind": "num", "dtype": "float64", "values": [nul(round(rng.gauss(0, 1), 5)) for _ in range(n)]}],
        ["y", {"kind": "num", "dtype": "float64", "values": [nul(round(rng.uniform(1, 2), 5)) for _ in range(n)]}],
        ["z", {"kind": "num", "dtype": "float64", "values": [round(rng.gauss(0, 1), 5) for _ in range(n)]}],
        ["A", {"kind": "cat", "categories": ["u", "v", "w"], "values": cat(["u", "v", "w"])}],
        ["B", {"kind": "cat", "categories": ["k", "l"], "values": cat(["k", "l"])}],
        ["S", {"kind": "text", "dtype": rng.choice(["object", "str"]), "values": cat(["s1", "s2", "s3"])}],
    ]
    enc = {v: rng.choice(opts) for v, opts in ENC.items()}

    def part(maxterms=4):
        if rng.random() < 0.12:  # a column-less part
            return rng.choice(["0", "-1", "1 - 1", "0 + x - x"])
        terms, seen = [], set()
        for _ in range(rng.randint(1, maxterms)):
            vs = rng.sample(list(enc), rng.randint(1, 2))
            if frozenset(vs) not in seen:
                seen.add(frozenset(vs))
                terms.append(":".join(enc[v] for v in vs))
        head = rng.choice(["", "", "0 + ", "1 + "])
        return head + " + ".join(terms)

    kind = rng.choice(["string", "string", "string", "keywords", "tuple", "nested"])
    lhs = " + ".join(rng.sample(["x", "y", "z", "log(y)"], rng.randint(1, 2)))
    parts = [part() for _ in range(rng.randint(1, 3))]
    if rng.random() < 0.3:
        # a factor that itself creates missing values (first row of a lag, root/log of a negative number), next to parts
        # that use the same column as it stands
        made = rng.choice(["lag(x)", "{x ** 0.5}", "log(x + 0.5)", "lag(z)", "{z ** 0.5}:A", "lag(y):x"])
        k = rng.randrange(len(parts))
        parts[k] = made if parts[k] in ("0", "-1", "1 - 1", "0 + x - x") else f"{parts[k]} + {made}"
    if kind == "string":
        spec = {"form": "string", "s": (f"{lhs} ~ " if rng.random() < 0.7 else "") + " | ".join(parts)}
        if "~" not in spec["s"] and len(parts) == 1:
            spec["s"] = f"{lhs} ~ {parts[0]}"
    elif kind == "keywords":
        spec = {"form": "keywords", "kw": {"lhs": lhs, "rhs": parts if len(parts) > 1 else parts[0], "extra": part(2)}}
    elif kind == "tuple":
        spec = {"form": "tuple", "parts": parts + [part(2)]}
    else:
        spec = {"form": "keywords", "kw": {"stage1": f"{lhs} ~ {parts[0]}", "stage2": {"a": part(2), "b": parts[-1]}}}
    if rng.random() < 0.12:  # a structured specification that holds nothing but a root entry (with or without a nested level)
        spec = {"form": "root_only", "root": rng.choice([parts[0], f"{lhs} ~ {parts[0]}", [parts[0], part(2)]])}
    return {"cluster": rng.choice([None, None, "numerical_factors"]), "mix": rng.choice([None, "last", "first", "all_but_first", "all"]), "efr": rng.random() < 0.7, "cols": cols, "spec": spec, "output": rng.choice(["pandas", "numpy", "sparse"]), "pnull": pnull,
            "enc": sorted(enc.values())}


def build_formula(spec):
    from formulaic import Formula

    def conv(o):
        if isinstance(o, list):
            return tuple(o)
        if isinstance(o, dict):
            return {k: conv(v) for k, v in o.items()}
        return o

    if spec["form"] == "string":
        return Formula(spec["s"])
    if spec["form"] == "tuple":
        return Formula(tuple(spec["parts"]))
    if spec["form"] == "root_only":
        return Formula({"root": conv(spec["root"])})
    kw = {k: conv(v) for k, v in spec["kw"].items()}
    return Formula(**kw)


def walk(obj, path=()):
    """Yield (path, leaf) over a Structured / tuple nesting; a non-structured object is a single leaf."""
    from formulaic.utils.structured import Structured

    if isinstance(obj, Structured):
        for k, v in obj._structure.items():
            yield from walk(v, path + (k,))
    elif isinstance(obj, tuple):
        for i, v in enumerate(obj):
            yield from walk(v, path + (i,))
    else:
        yield path, obj


def judge(case) -> Outcome:
    out = Outcome()
    df = make_frame({"cols": case["cols"], "index": None})
    n = len(df)
    try:
        form = build_formula(case["spec"])
    except Exception as e:  # noqa: BLE001
        out.fail("c07.formula_raised", f"{case['spec']}: {type(e).__name__}: {str(e)[:150]}")
        return out
    fleaves = list(walk(form))
    skeleton = tuple(p for p, _ in fleaves)
    out.sig = (skeleton, tuple(len(leaf) for _, leaf in fleaves), case["pnull"] > 0, case["output"], tuple(case["enc"]), case.get("efr", True), case.get("cluster"))
    tag = f"{case['spec']} out={case['output']} efr={case.get('efr', True)}"
    joint: set = set()
    try:
        with quiet():
            ckw = {"cluster_by": case["cluster"]} if case.get("cluster") else {}
            res = form.get_model_matrix(df, output=case["output"], drop_rows=joint, context={}, ensure_full_rank=case.get("efr", True), **ckw)
    except Exception as e:  # noqa: BLE001
        out.fail("c07.joint_build_raised", f"{tag}: {type(e).__name__}: {str(e)[:200]}")
        return out
    rleaves = list(walk(res))
    sleaves = list(walk(res.model_spec))
    if tuple(p for p, _ in rleaves) != skeleton or tuple(p for p, _ in sleaves) != skeleton:
        out.fail("c07.shape", f"{tag}: formula paths {skeleton}, result paths {tuple(p for p, _ in rleaves)}, spec paths {tuple(p for p, _ in sleaves)}")
        return out
    dropped = {int(i) for i in joint}
    kept = [i for i in range(n) if i not in dropped]
    for (path, leaf), (_, part), (_, spec) in zip(fleaves, rleaves, sleaves):
        M = dense(part)
        names = colnames(part)
        if M.shape[0] != len(kept):
            out.fail("c07.rows_differ", f"{tag}: part {path} has {M.shape[0]} rows, the joint drop set leaves {len(kept)}")
            return out
        if case["output"] == "pandas" and list(part.index) != kept:
            out.fail("c07.rows_differ", f"{tag}: part {path} index {list(part.index)[:8]}.. != kept rows {kept[:8]}..")
            return out
        # separate build of this part's terms with the jointly dropped rows supplied as the drop set
        try:
            with quiet():
                alone = leaf.get_model_matrix(df, output=case["output"], drop_rows=set(dropped), context={}, ensure_full_rank=case.get("efr", True), **ckw)
        except Exception as e:  # noqa: BLE001
            out.fail("c07.separate_build_raised", f"{tag}: part {path} alone: {type(e).__name__}: {str(e)[:150]}")
            return out
        if colnames(alone) != names:
            out.fail("c07.part_names", f"{tag}: part {path}: joint columns {names} != separate build {colnames(alone)}")
            return out
        if not same(M, dense(alone)):
            out.fail("c07.part_values", f"{tag}: part {path}: joint values differ from the separate build (columns {names})")
            return out
        # the attached spec regenerates its own part
        try:
            with quiet():
                again = spec.get_model_matrix(df, drop_rows=set(dropped))
            if colnames(again) != names or not same(dense(again), M):
                out.fail("c07.spec_regenerates", f"{tag}: part {path}: its spec regenerates columns {colnames(again)} / different values")
                return out
        except Exception as e:  # noqa: BLE001
            out.fail("c07.spec_regenerates", f"{tag}: part {path}: spec.get_model_matrix raised {type(e).__name__}: {str(e)[:150]}")
            return out
        # ... and carries everything it needs: used by itself on other rows it must behave like the spec of the separate build
        text = repr(case["spec"])
        if len(kept) >= 4 and "lag(" not in text:
            sub = df.iloc[kept[::2]]
            try:
                with quiet():
                    r1 = spec.get_model_matrix(sub, context={})
                    r2 = alone.model_spec.get_model_matrix(sub, context={})
                if colnames(r1) != colnames(r2) or not same(dense(r1), dense(r2)):
                    out.fail("c07.part_spec_incomplete", f"{tag}: part {path}: its spec, used alone on every other kept row, gives {colnames(r1)} / values that differ from the separately built part's spec on the same rows")
                    return out
                out.see("part_specs_replayed_alone")
            except Exception as e:  # noqa: BLE001
                out.fail("c07.part_spec_incomplete", f"{tag}: part {path}: its spec used alone on other rows raised {type(e).__name__}: {str(e)[:150]}")
                return out
        out.see("parts_checked")
    # the whole structured spec regenerates the whole result
    try:
        with quiet():
            whole = res.model_spec.get_model_matrix(df)
        for (_, a), (_, b) in zip(walk(whole), rleaves):
            if colnames(a) != colnames(b) or not same(dense(a), dense(b)):
                out.fail("c07.specs_regenerate", f"{tag}: ModelSpecs.get_model_matrix differs from the original result")
                break
    except Exception as e:  # noqa: BLE001
        out.fail("c07.specs_regenerate", f"{tag}: {type(e).__name__}: {str(e)[:150]}")
    # a structured spec in which some parts were replaced by fresh (unfitted) specs of the same formulas: on the training data
    # it still is one joint build - all parts hold the same rows and equal the original parts
    mix = case.get("mix")
    if mix and len(sleaves) > 1:
        from formulaic import ModelSpec, ModelSpecs

        k = [0]
        nleaves = len(sleaves)

        def swap(sp):
            i = k[0]
            k[0] += 1
            fresh = {"last": i == nleaves - 1, "first": i == 0, "all_but_first": i > 0, "all": True}[mix]
            return ModelSpec.from_spec(sp.formula, output=sp.output, ensure_full_rank=sp.ensure_full_rank, cluster_by=sp.cluster_by) if fresh else sp

        try:
            with quiet():
                mixed = res.model_spec._map(swap, as_type=ModelSpecs)
                again = mixed.get_model_matrix(df, context={})
            for (pa_, a), (_, b) in zip(walk(again), rleaves):
                if dense(a).shape[0] != dense(b).shape[0]:
                    out.fail("c07.rows_differ", f"{tag}: specs with fresh parts ({mix}): part {pa_} has {dense(a).shape[0]} rows, the joint build {dense(b).shape[0]}")
                    break
                if colnames(a) != colnames(b) or not same(dense(a), dense(b)):
                    out.fail("c07.specs_regenerate", f"{tag}: specs with fresh parts ({mix}): part {pa_} differs from the original result")
                    break
            out.see("mixed_specs_checked")
        except Exception as e:  # noqa: BLE001
            out.fail("c07.specs_regenerate", f"{tag}: specs with fresh parts ({mix}): {type(e).__name__}: {str(e)[:150]}")
    return out


PINNED = []
SUBS = {"parts": Sub(judge=judge, gen=gen_case, quick=1500, thorough=80_000, min_decided=200)}
