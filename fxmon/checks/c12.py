"""C12 - spline transforms reproduce the mathematical bases they name."""

from __future__ import annotations

import math
import random

import numpy as np

from ..core import Outcome, Sub
from ..data import dense, quiet

ID = "C12"
DESIGN_REF = "DESIGN.md section 4 / C12"
TECHNIQUE = "runtime monitoring: spline monitor - own Cox-de Boor recursion by definition on the recorded knot vector; scipy CubicSpline natural/periodic cardinal bases; partition-of-unity, df, extrapolation-mode and centering laws"
LEVEL_TEXT = (
    "Random real vectors (ties, integers, boundary points, out-of-range values, NaNs, data far from the origin) x degree 0-5 x "
    "df / explicit knots x bounds x include_intercept x each extrapolation mode are pushed through the real bs/cr/cc transforms "
    "(directly with a state dict and through model_matrix); the result is compared value by value with an exact-definition "
    "B-spline recursion on the knot vector the transform recorded, respectively with the cardinal natural/periodic interpolating "
    "cubic splines from scipy; df, non-negativity, row sums, quantile knot placement, NaN propagation and zero column means under "
    "the centering constraint are asserted as separate laws."
)
LEVEL_NOTE = "trusts: my de Boor evaluator (40 lines), scipy.interpolate.CubicSpline, numpy quantiles"
RULE = (
    "random (vector kind, n, degree, df|knots|none, bounds given/derived, include_intercept, extrapolation mode, state reuse on a "
    "fresh vector, path direct/model_matrix) for bs; (df|knots, bounds, constraints none/center, extrapolation, cyclic) for cr/cc; "
    "distinct = those option tuples x vector kind x offset class"
)
ASSUMPTIONS = [
    "when an interior knot coincides with a bound, which coincident interval owns x == bound at degree 0 and which piece 'extend' "
    "continues are conventions: for those rows only non-negativity and row sum 1 are asserted",
]


# ------------------------------------------------------------------ B-spline reference


def ref_basis(x, t, k, extend=False):
    """Cox-de Boor by definition on knot vector t, degree k; half-open intervals, the last non-empty interval closed on the
    right; extend=True continues the first/last polynomial pieces outside the domain."""
    t = np.asarray(t, float)
    m = len(t)
    x = np.asarray(x, float)
    nb = m - k - 1
    lo, hi = t[k], t[m - k - 1]
    nonempty = [j for j in range(k, m - k - 1) if t[j] < t[j + 1]]
    out = np.zeros((len(x), nb))
    for r, xv in enumerate(x):
        if np.isnan(xv) or not nonempty:
            out[r] = np.nan
            continue
        if xv < lo:
            j = nonempty[0] if extend else None
        elif xv > hi:
            j = nonempty[-1] if extend else None
        else:
            j = None
            for jj in nonempty:
                if t[jj] <= xv < t[jj + 1]:
                    j = jj
            if j is None and xv == hi:
                j = nonempty[-1]
        if j is None:
            continue
        N = np.zeros(k + 1)
        N[0] = 1.0
        left = np.zeros(k + 1)
        right = np.zeros(k + 1)
        for d in range(1, k + 1):
            left[d] = xv - t[j + 1 - d]
            right[d] = t[j + d] - xv
            saved = 0.0
            for q in range(d):
                den = right[q + 1] + left[d - q]
                tmp = N[q] / den if den != 0 else 0.0
                N[q] = saved + right[q + 1] * tmp
                saved = left[d - q] * tmp
            N[d] = saved
        for q in range(k + 1):
            out[r, j - k + q] = N[q]
    return out


def rand_x(rng: random.Random, n: int):
    kind = rng.choice(["normal", "ties", "ints", "uniform", "far"])
    if kind == "normal":
        x = [rng.gauss(0, 1) for _ in range(n)]
    elif kind == "ties":
        pool = [rng.gauss(0, 1) for _ in range(5)]
        x = [rng.choice(pool) for _ in range(n)]
    elif kind == "ints":
        x = [float(rng.randint(0, 6)) for _ in range(n)]
    elif kind == "uniform":
        x = [rng.uniform(0, 1) for _ in range(n)]
    else:  # far from the origin relative to the spread (timestamps, tiny absolute scale)
        if rng.random() < 0.5:
            base, step = 1.7e9, rng.choice([1.0, 90.0, 3600.0])
            x = [base + step * rng.randint(0, 200) for _ in range(n)]
        else:
            s = 10.0 ** rng.randint(-9, -5)
            x = [s * rng.uniform(1, 2) for _ in range(n)]
    return x, kind


def gen_bs(rng: random.Random, tier: str) -> dict:
    for _ in range(50):
        n = rng.randint(6, 40)
        x, kind = rand_x(rng, n)
        if len(set(x)) >= 3:
            break
    nan_rows = sorted(rng.sample(range(n), rng.randint(1, 3))) if rng.random() < 0.25 else []
    xa = np.array([v for i, v in enumerate(x) if i not in nan_rows])
    if len(set(xa.tolist())) < 3:
        nan_rows, xa = [], np.array(x)
    k = rng.randint(0, 5)
    inc = rng.random() < 0.5
    kw = {"degree": k, "include_intercept": inc}
    mode = rng.choice(["df", "df", "knots", "none"])
    if mode == "df":
        df = k + (1 if inc else 0) + rng.randint(0, 4)
        if df > 0:
            kw["df"] = df
    elif mode == "knots":
        kw["knots"] = sorted(rng.uniform(float(xa.min()), float(xa.max())) for _ in range(rng.randint(1, 3)))
        if rng.random() < 0.15:
            kw["knots"][0] = float(xa.min())  # a knot equal to a bound
    if rng.random() < 0.4:
        qlo, qhi = rng.choice([(0.1, 0.9), (0.1, 0.9), (0.3, 0.7), (0.4, 0.6), (0.0, 0.5), (0.5, 1.0)])  # also much narrower than the data
        kw["lower_bound"] = float(np.quantile(xa, qlo))
        kw["upper_bound"] = float(np.quantile(xa, qhi))
        if kw["lower_bound"] >= kw["upper_bound"]:
            kw.pop("lower_bound")
            kw.pop("upper_bound")
        elif "knots" in kw:
            kw["knots"] = [q for q in kw["knots"] if kw["lower_bound"] <= q <= kw["upper_bound"]]
            if not kw["knots"]:
                kw.pop("knots")
    kw["extrapolation"] = rng.choice(["raise", "clip", "na", "zero", "extend"])
    lo, hi = float(xa.min()), float(xa.max())
    span = hi - lo
    xnew = [rng.uniform(lo - 0.3 * span, hi + 0.3 * span) for _ in range(6)] + [lo, hi]
    as_int = None
    if kind == "ints" and not nan_rows and rng.random() < 0.6:
        # an integer column (possibly unsigned) with whole-number knots and bounds given as Python ints
        as_int = rng.choice(["uint8", "int64", "int8"])
        shift = float(rng.choice([0, 3, 10, 100] if as_int != "int8" else [0, 3, -20, 100]))  # (room below the lower bound, also for unsigned columns)
        x = [v + shift for v in x]
        lo, hi = lo + shift, hi + shift
        kw.pop("df", None)
        inner = sorted({int(q) for q in rng.sample(range(int(lo) + 1, max(int(lo) + 2, int(hi))), min(2, max(1, int(hi) - int(lo) - 1)))}) if hi - lo >= 2 else []
        kw["knots"] = [q for q in inner if lo < q < hi]
        if not kw["knots"]:
            kw.pop("knots")
        kw["lower_bound"], kw["upper_bound"] = int(lo), int(hi)
        xnew = [float(v) for v in (int(lo), int(hi), int(lo) + 1, max(int(lo), int(hi) - 1))] + ([float(int(hi) + 2), float(max(0, int(lo) - 1)), float(max(0, int(lo) - 3))] if kw["extrapolation"] != "raise" else [])
    return {"as_int": as_int, "fn": "bs", "x": x, "kw": kw, "kind": kind, "nan_rows": nan_rows, "xnew": xnew, "path": rng.choice(["direct", "direct", "mm"]), "ext_as_enum": rng.random() < 0.25,
            "bounds_reeval": rng.random() < 0.4}


def kwtext(kw):
    return ", ".join(f"{k}={v!r}" for k, v in kw.items())


def call_spline(case, fn_name, x, state, kw):
    from formulaic.transforms import TRANSFORMS

    if case.get("ext_as_enum") and "extrapolation" in kw:  # the option given as the enumeration member instead of its name
        from formulaic.transforms.basis_spline import SplineExtrapolation

        kw = dict(kw, extrapolation=SplineExtrapolation(kw["extrapolation"]))
    res = TRANSFORMS[fn_name](x, _state=state, **kw)
    cols = [np.asarray(res[i], float) for i in sorted(res)]
    return np.column_stack(cols) if cols else np.zeros((len(x), 0))


def judge_bs(case) -> Outcome:
    import pandas as pd
    from formulaic import model_matrix

    out = Outcome()
    kw = dict(case["kw"])
    k, inc, ext = kw["degree"], kw["include_intercept"], kw["extrapolation"]
    out.sig = (case["kind"], k, inc, ext, "df" in kw, len(kw.get("knots", [])), "lower_bound" in kw, bool(case["nan_rows"]), case["path"])
    x = np.array(case["x"], float)
    x[case["nan_rows"]] = np.nan
    n = len(x)
    asint = (lambda a: np.asarray(a).astype(case["as_int"])) if case.get("as_int") else (lambda a: a)
    tag = f"bs(x, {kwtext(kw)}) kind={case['kind']} n={n} nan_rows={case['nan_rows']} path={case['path']} dtype={case.get('as_int') or 'float64'}"
    has_bounds = "lower_bound" in kw
    oob_given = has_bounds and bool(np.any((x < kw["lower_bound"]) | (x > kw["upper_bound"])))
    st: dict = {}
    try:
        with quiet():
            if case["path"] == "direct":
                M = call_spline(case, "bs", asint(x), st, kw)
            else:
                mm = model_matrix(f"0 + bs(x, {kwtext(kw)})", pd.DataFrame({"x": asint(x)}), na_action="ignore", context={})
                M = dense(mm)
                st = dict(next(iter(mm.model_spec.transform_state.values())))
    except Exception as e:  # noqa: BLE001
        msg = str(e)
        if ext == "raise" and oob_given and ("ValueError" in type(e).__name__ or "ValueError" in msg or "extend beyond" in msg):
            out.see("raise_mode_raised")
            return out
        if (isinstance(e, ValueError) or "ValueError" in msg) and any(p in msg for p in VALIDATION_PHRASES):
            # parameter combinations the transform documents as invalid (df too small, no data within bounds, ...)
            out.decided = False
            out.see("rejected_parameters")
            return out
        out.fail("c12.raised", f"{tag}: {type(e).__name__}: {msg[:200]}")
        return out
    if ext == "raise" and oob_given:
        out.fail("c12.raise_mode_silent", f"{tag}: out-of-range values did not raise")
        return out
    t = list(st["knots"])
    lo, hi = float(st["lower_bound"]), float(st["upper_bound"])
    tt = np.asarray(t, float)
    # recorded knot vector: bounds padded degree times, interior knots sorted
    if not (np.all(np.diff(tt) >= 0) and np.all(tt[: k + 1] == lo) and np.all(tt[len(tt) - k - 1:] == hi)):
        out.fail("c12.knot_vector", f"{tag}: recorded knots {t} are not [lo]*(k+1) + interior + [hi]*(k+1) for bounds ({lo}, {hi})")
        return out
    if "df" in kw:
        if M.shape[1] != kw["df"]:
            out.fail("c12.df_columns", f"{tag}: {M.shape[1]} columns for df={kw['df']}")
        nk = kw["df"] - k - (1 if inc else 0)
        inb = x[(x >= lo) & (x <= hi)]  # interior knots are quantiles of the values the basis is defined on: those inside the bounds
        inb = inb[~np.isnan(inb)]
        expk = np.quantile(inb, np.linspace(0, 1, nk + 2))[1:-1]
        interior = tt[k + 1: len(tt) - k - 1]
        if len(interior) != nk or not np.allclose(interior, expk, rtol=1e-12, atol=1e-12 * max(1.0, abs(hi))):
            out.fail("c12.df_knots", f"{tag}: interior knots {interior.tolist()} are not the {nk} equally spaced quantiles {expk.tolist()}")
    elif not has_bounds and (lo != np.nanmin(x) or hi != np.nanmax(x)):
        out.fail("c12.derived_bounds", f"{tag}: derived bounds ({lo},{hi}) != data range")

    def expected(xv):
        xe = np.clip(xv, lo, hi) if ext == "clip" else xv
        R = ref_basis(xe, t, k, extend=(ext == "extend"))
        oob = (xv < lo) | (xv > hi)
        if ext == "na":
            R[oob] = np.nan
        if ext == "zero":
            R[oob & ~np.isnan(xv)] = 0
        R[np.isnan(xv)] = np.nan
        return (R if inc else R[:, 1:]), oob

    ut = np.unique(tt)
    gaps = np.diff(np.unique(tt))
    mingap = float(gaps.min()) if len(gaps) else 1.0
    atol = 1e-9 + 2e3 * np.finfo(float).eps * max(abs(lo), abs(hi), 1e-300) / max(mingap, 1e-300) * (k + 1)
    lower_over = np.sum(tt == tt[0]) != k + 1  # an interior knot coincides with the lower bound
    upper_over = np.sum(tt == tt[-1]) != k + 1

    def compare(Mx, xv, label):
        Rr, oob = expected(xv)
        if Mx.shape != Rr.shape:
            out.fail("c12.bs_shape", f"{tag} [{label}]: shape {Mx.shape} expected {Rr.shape}")
            return
        rows = np.ones(len(xv), bool)
        xe = np.clip(xv, lo, hi) if ext == "clip" else xv
        if lower_over:  # convention rows: at an over-multiplied lower bound (under `extend` the continuation beyond it is defined)
            rows &= ~((xe <= lo) if ext != "extend" else (xe == lo))
        if upper_over:
            rows &= ~((xe >= hi) if ext != "extend" else (xe == hi))
        if ext == "extend" and len(ut) >= 2:
            # the polynomial of an outermost interval that is only a few ulps wide (a quantile knot that misses the bound by
            # rounding) continues with coefficients ~ (span/width)^degree: no implementation's digits mean anything there
            if ut[1] - ut[0] < 1e-6 * (hi - lo):
                rows &= ~(xe < lo)
                out.see("ill_conditioned_extension_rows_skipped")
            if ut[-1] - ut[-2] < 1e-6 * (hi - lo):
                rows &= ~(xe > hi)
                out.see("ill_conditioned_extension_rows_skipped")
        if not np.allclose(Mx[rows], Rr[rows], atol=atol, rtol=1e-7, equal_nan=True):
            bad = np.argwhere(~np.isclose(Mx, Rr, atol=atol, rtol=1e-7, equal_nan=True) & rows[:, None])
            r = bad[0][0]
            out.fail("c12.bs_values", f"{tag} [{label}] knots={t}: row x={xv[r]!r} gives {Mx[r].tolist()} but the B-spline basis is {Rr[r].tolist()}")
        else:
            out.see("bs_rows_compared", int(rows.sum()))

    compare(M, x, "fit")
    # partition of unity and non-negativity of the full basis inside the bounds
    try:
        with quiet():
            F = call_spline(case, "bs", asint(x), dict(st), {"degree": k, "include_intercept": True, "extrapolation": ext})
        inside = ~((x < lo) | (x > hi)) & ~np.isnan(x)
        if inside.any() and (not np.allclose(F[inside].sum(axis=1), 1, atol=1e-8) or (F[inside] < -1e-10).any()):
            out.fail("c12.partition_of_unity", f"{tag}: full basis rows inside the bounds are not non-negative with sum 1")
    except ValueError:
        pass
    # state reuse on a fresh vector (same recorded knots, each extrapolation mode as documented)
    xn = np.array(case["xnew"], float)
    if ext == "raise":
        xn = np.clip(xn, lo, hi)
    try:
        with quiet():
            st2 = {kk: (list(v) if isinstance(v, list) else v) for kk, v in st.items()}
            kw2 = kw
            if case.get("bounds_reeval") and has_bounds:
                # bounds written as expressions of the data / context (lower_bound=x.min()) evaluate to other numbers on the
                # follow-up vector: the recorded bounds stay in force
                kw2 = dict(kw, lower_bound=float(np.nanmin(xn)) - 0.25, upper_bound=float(np.nanmax(xn)) + 0.25)
                out.see("bounds_reevaluated_on_reuse")
            Mn = call_spline(case, "bs", asint(xn), st2, kw2)
        if list(st2["knots"]) != t or float(st2["lower_bound"]) != lo or float(st2["upper_bound"]) != hi:
            out.fail("c12.state_retrained", f"{tag}: knots / bounds changed on reuse: {st2['knots']} ({st2['lower_bound']}, {st2['upper_bound']})")
        compare(Mn, xn, "reuse")
    except Exception as e:  # noqa: BLE001
        out.fail("c12.reuse_raised", f"{tag}: {type(e).__name__}: {str(e)[:200]}")
    return out


# ------------------------------------------------------------------ cubic splines


def natural_cardinal(knots, x):
    from scipy.interpolate import CubicSpline

    K = len(knots)
    out = np.zeros((len(x), K))
    for j in range(K):
        e = np.zeros(K)
        e[j] = 1.0
        cs = CubicSpline(knots, e, bc_type="natural")
        v = cs(np.clip(x, knots[0], knots[-1]))
        lo = x < knots[0]
        hi = x > knots[-1]
        v = np.where(lo, cs(knots[0]) + cs(knots[0], 1) * (x - knots[0]), v)
        v = np.where(hi, cs(knots[-1]) + cs(knots[-1], 1) * (x - knots[-1]), v)
        out[:, j] = v
    return out


def cyclic_cardinal(knots, x):
    from scipy.interpolate import CubicSpline

    K = len(knots)
    lo, hi = knots[0], knots[-1]
    xm = np.where((x < lo) | (x > hi), lo + np.mod(x - lo, hi - lo), x)
    out = np.zeros((len(x), K - 1))
    for j in range(K - 1):
        e = np.zeros(K)
        e[j] = 1.0
        if j == 0:
            e[-1] = 1.0
        cs = CubicSpline(knots, e, bc_type="periodic")
        out[:, j] = cs(xm)
    return out


# the messages with which cr/cc/bs reject invalid parameters (anything else that escapes is a defect, not a rejection)
VALIDATION_PHRASES = ["must be greater than", "Must specify", "should be less than", "lower_bound > upper_bound", "inner knots", "inner knot(s)",
                      "fall below lower bound", "fall above upper bound", "distinct knots", "cannot specify both", "must be 1-d", "Constraints",
                      "extend beyond upper and/or lower bounds", "no data points are available", "Invalid value for `df`"]


def gen_cubic(rng: random.Random, tier: str) -> dict:
    for _ in range(50):
        n = rng.randint(8, 40)
        x, kind = rand_x(rng, n)
        if kind != "far" and len(set(x)) >= 6:
            break
    xa = np.array(x)
    cyclic = rng.random() < 0.4
    fn = "cc" if cyclic else rng.choice(["cr", "cs"])
    kw = {}
    center = rng.random() < 0.4
    if center:
        kw["constraints"] = "center"
    cons_m = rng.randint(1, 3) if not center and rng.random() < 0.15 else 0  # an explicit constraint matrix with this many rows
    if rng.random() < 0.6 and not cons_m:
        kw["df"] = rng.randint(2, 6)  # (2 = no interior knot for the natural spline, one for the cyclic one)
    else:
        lo, hi = float(xa.min()), float(xa.max())
        kw["knots"] = sorted({round(rng.uniform(lo, hi), 6) for _ in range(rng.randint(1 if not cyclic else 2, 4))})
        kw["knots"] = [q for q in kw["knots"] if lo < q < hi] or [float((lo + hi) / 2)]
        if rng.random() < 0.35:  # (a knot list is a set of positions: the order it is written in means nothing)
            rng.shuffle(kw["knots"])
    if rng.random() < 0.3:
        qlo, qhi = rng.choice([(0.05, 0.95), (0.05, 0.95), (0.2, 0.8), (0.0, 0.7)])
        lb, ub = float(np.quantile(xa, qlo)), float(np.quantile(xa, qhi))
        if lb < ub and ("knots" not in kw or all(lb < q < ub for q in kw["knots"])):
            kw["lower_bound"], kw["upper_bound"] = lb, ub
    if cons_m:
        q = len(kw["knots"]) + (1 if cyclic else 2)  # free basis functions: one per knot (the cyclic basis identifies the two ends)
        cons_m = min(cons_m, q - 1)
        kw["constraints"] = [[round(rng.uniform(-1, 1), 3) for _ in range(q)] for _ in range(cons_m)]
    ext = rng.choice(["extend", "extend", "clip", "na", "zero", "raise"])
    kw["extrapolation"] = ext
    lo, hi = float(xa.min()), float(xa.max())
    span = hi - lo
    xnew = [rng.uniform(lo - 0.3 * span, hi + 0.3 * span) for _ in range(6)] + [lo, hi]
    as_int = kind == "ints" and rng.random() < 0.6  # the column holds integers (dtype int64): same numbers, same basis
    if as_int:
        xnew = [float(round(v)) for v in xnew] + [lo - 3.0, hi + 4.0]
    return {"fn": fn, "x": x, "kw": kw, "kind": kind, "xnew": xnew, "path": rng.choice(["direct", "direct", "mm"]), "as_int": as_int,
            "ext_as_enum": rng.random() < 0.2, "bounds_reeval": rng.random() < 0.4}


def judge_cubic(case) -> Outcome:
    import pandas as pd
    from formulaic import model_matrix

    out = Outcome()
    kw = dict(case["kw"])
    fn = case["fn"]
    cyclic = fn == "cc"
    ext = kw["extrapolation"]
    center = kw.get("constraints") == "center"
    explicit = kw.get("constraints") if isinstance(kw.get("constraints"), list) else None
    ncons = 1 if center else len(explicit) if explicit else 0
    out.sig = (fn, case["kind"], "df" in kw, len(kw.get("knots", [])), center, ext, "lower_bound" in kw, case["path"], bool(case.get("as_int")))
    x = np.array(case["x"], float)
    asint = (lambda a: np.asarray(a).astype("int64")) if case.get("as_int") else (lambda a: a)
    tag = f"{fn}(x, {kwtext(kw)}) kind={case['kind']} n={len(x)} path={case['path']} int_dtype={bool(case.get('as_int'))}"
    has_bounds = "lower_bound" in kw
    oob_given = has_bounds and bool(np.any((x < kw["lower_bound"]) | (x > kw["upper_bound"])))
    st: dict = {}
    try:
        with quiet():
            if case["path"] == "direct":
                M = call_spline(case, fn, asint(x), st, kw)
            else:
                mm = model_matrix(f"0 + {fn}(x, {kwtext(kw)})", pd.DataFrame({"x": asint(x)}), na_action="ignore", context={})
                M = dense(mm)
                st = dict(next(iter(mm.model_spec.transform_state.values())))
    except Exception as e:  # noqa: BLE001
        msg = str(e)
        if ext == "raise" and oob_given:
            out.see("raise_mode_raised")
            return out
        if (isinstance(e, ValueError) or "ValueError" in msg) and any(p in msg for p in VALIDATION_PHRASES):
            out.decided = False  # a parameter combination the transform documents as invalid
            out.see("rejected_parameters")
            return out
        out.fail("c12.raised", f"{tag}: {type(e).__name__}: {msg[:200]}")
        return out
    if ext == "raise" and oob_given:
        out.fail("c12.raise_mode_silent", f"{tag}: out-of-range values did not raise")
        return out
    knots = np.array(st["knots"], float)
    K = len(knots)
    lo, hi = knots[0], knots[-1]
    if not np.all(np.diff(knots) > 0):
        out.fail("c12.knot_vector", f"{tag}: recorded knots not strictly increasing: {knots.tolist()}")
        return out
    nfree = K - 1 if cyclic else K
    if "df" in kw and M.shape[1] != kw["df"]:
        out.fail("c12.df_columns", f"{tag}: {M.shape[1]} columns for df={kw['df']}")
    if explicit and len(explicit[0]) != nfree:  # (my constraint matrix does not fit the recorded knots: bounds moved them)
        out.decided = False
        return out
    if M.shape[1] != nfree - ncons:
        out.fail("c12.cubic_columns", f"{tag}: {M.shape[1]} columns for {K} knots (cyclic={cyclic}, constraints={ncons})")
        return out
    card = cyclic_cardinal if cyclic else natural_cardinal

    def expected_free(xv):
        xe = np.clip(xv, lo, hi) if ext == "clip" else xv
        R = card(knots, np.where(np.isnan(xe), lo, xe))
        oob = (xv < lo) | (xv > hi)
        if ext == "na":
            R[oob] = np.nan
        if ext == "zero":
            R[oob] = 0
        R[np.isnan(xv)] = np.nan
        return R, oob

    scale = max(1.0, float(np.nanmax(np.abs(M))) if M.size else 1.0)
    if not ncons:
        R, _ = expected_free(x)
        if not np.allclose(M, R, atol=1e-7 * scale, rtol=1e-6, equal_nan=True):
            bad = np.argwhere(~np.isclose(M, R, atol=1e-7 * scale, rtol=1e-6, equal_nan=True))
            r = bad[0][0]
            out.fail("c12.cubic_values", f"{tag} knots={knots.tolist()}: row x={x[r]!r} gives {M[r].tolist()}, cardinal {'periodic' if cyclic else 'natural'} spline basis is {R[r].tolist()}")
        else:
            out.see("cubic_rows_compared", len(x))
        # identity at the knots
        try:
            with quiet():
                st2 = {k2: v for k2, v in st.items()}
                Mk = call_spline(case, fn, knots.copy(), st2, kw)
            I = np.eye(K)[:, :nfree] if not cyclic else np.vstack([np.eye(K - 1), np.eye(K - 1)[:1]])
            if not np.allclose(Mk, I, atol=1e-8):
                out.fail("c12.identity_at_knots", f"{tag}: basis at the knots is not the identity: {np.round(Mk, 6).tolist()}")
        except Exception as e:  # noqa: BLE001
            out.fail("c12.reuse_raised", f"{tag} at knots: {type(e).__name__}: {str(e)[:200]}")
    else:
        inb = ~np.isnan(M).any(axis=1)
        if center and ext in ("extend", "clip", "raise", "na", "zero"):  # (zeroed out-of-range rows count as zeros)
            means = M[inb].mean(axis=0)
            if np.abs(means).max() > 1e-8 * scale:
                out.fail("c12.centering", f"{tag}: column means on the training data {means.tolist()} are not zero")
        # centred columns live in the span of the free cardinal basis
        R, oob = expected_free(x)
        ok_rows = ~np.isnan(R).any(axis=1) & np.isfinite(M).all(axis=1) & ~(oob if ext == "zero" else np.zeros(len(x), bool))
        if ext == "na" and not np.array_equal(np.isnan(M).any(axis=1), np.isnan(R).any(axis=1)):
            out.fail("c12.cubic_nan_rows", f"{tag}: NaN rows differ from the out-of-range rows")
        xeff = np.clip(x, lo, hi) if ext == "clip" else x
        if ok_rows.sum() >= nfree:
            Q, _ = np.linalg.qr(R[ok_rows])
            resid = M[ok_rows] - Q @ (Q.T @ M[ok_rows])
            if np.abs(resid).max() > 1e-6 * scale:
                out.fail("c12.centering_span", f"{tag}: centred columns leave the span of the spline basis by {np.abs(resid).max():.2e}")
            if explicit and np.linalg.matrix_rank(R[ok_rows]) == nfree:
                # columns = free basis times Z with C @ Z = 0: recover Z and test the constraints the caller gave
                Z, *_ = np.linalg.lstsq(R[ok_rows], M[ok_rows], rcond=None)
                viol = float(np.abs(np.asarray(explicit) @ Z).max()) if Z.size else 0.0
                if viol > 1e-6 * max(1.0, float(np.abs(Z).max()) if Z.size else 1.0):
                    out.fail("c12.constraints_not_absorbed", f"{tag}: the columns are B @ Z with |C @ Z| up to {viol:.2e} for the given constraint matrix C")
                out.see("explicit_constraints_checked")
    # state reuse on fresh points
    xn = np.array(case["xnew"], float)
    if ext == "raise":
        xn = np.clip(xn, lo, hi)
    try:
        with quiet():
            st3 = dict(st)
            kw3 = kw
            if case.get("bounds_reeval") and "lower_bound" in kw:  # bounds written as expressions re-evaluate on the follow-up vector
                kw3 = dict(kw, lower_bound=float(np.nanmin(xn)) - 0.25, upper_bound=float(np.nanmax(xn)) + 0.25)
                out.see("bounds_reevaluated_on_reuse")
            Mn = call_spline(case, fn, asint(xn), st3, kw3)
        if list(st3["knots"]) != list(st["knots"]) or st3.get("lower_bound") != st.get("lower_bound") or st3.get("upper_bound") != st.get("upper_bound"):
            out.fail("c12.state_retrained", f"{tag}: knots / bounds changed on reuse")
        if not ncons:
            Rn, _ = expected_free(xn)
            if Mn.shape != Rn.shape or not np.allclose(Mn, Rn, atol=1e-7 * max(1.0, float(np.nanmax(np.abs(Rn)))), rtol=1e-6, equal_nan=True):
                out.fail("c12.cubic_values", f"{tag} [reuse]: new points {xn[:3].tolist()} give {Mn[:3].tolist()} expected {Rn[:3].tolist()}")
        elif Mn.shape[1] != M.shape[1]:
            out.fail("c12.cubic_columns", f"{tag} [reuse]: column count changed")
    except Exception as e:  # noqa: BLE001
        out.fail("c12.reuse_raised", f"{tag}: {type(e).__name__}: {str(e)[:200]}")
    return out


PINNED = [
    ("bs", {"fn": "bs", "x": [0.0, 1.0, 2.0, 3.0, 4.0, 2.5], "kw": {"degree": 0, "include_intercept": True, "df": 3, "extrapolation": "na"},
            "kind": "ints", "nan_rows": [5], "xnew": [0.5, 9.0], "path": "direct"}),
]
SUBS = {
    "bs": Sub(judge=judge_bs, gen=gen_bs, quick=6000, thorough=200_000, min_decided=400),
    "cubic": Sub(judge=judge_cubic, gen=gen_cubic, quick=3000, thorough=100_000, min_decided=150),
}
