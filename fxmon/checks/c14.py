"""C14 - any input string is parsed or rejected with the library's parsing error."""

from __future__ import annotations

import ast as pyast
import itertools
import math
import random
import re
import sys

from ..core import Outcome, Sub
from . import c01

ID = "C14"
DESIGN_REF = "DESIGN.md section 4 / C14"
TECHNIQUE = "runtime monitoring: exception-type monitor under exhaustive short token sequences + random/mutation fuzzing across all parser configurations; termination decided on a logical step count (sys.monitoring PY_START events), not wall time"
LEVEL_TEXT = (
    "Every string of up to 4 (quick) / 5 (thorough) tokens over a 16-token alphabet - an exhaustive sweep - plus random token "
    "soups over ~90 hostile atoms and character-level mutations of valid formulas are fed to the real parser under every "
    "feature-flag subset, both intercept settings, with and without a variable context; the monitor classifies each outcome "
    "(formula / FormulaParsingError / excusable SyntaxError / anything else = violation), counts interpreter steps per parse "
    "against a budget tied to the size of the input (short inputs) or of the result (long ones), and checks that generator-rendered "
    "valid formulas using a disabled operator are rejected - also when the parser was reconfigured, copied, pickled, or built "
    "around a subclassed operator resolver. A further sub-monitor feeds inputs with thousands of operands or parentheses."
)
LEVEL_NOTE = "trusts: ast.parse as the judge of whether an embedded Python fragment is itself invalid; my brace/call fragment scanner"
RULE = (
    "exhaustive: all sequences of <= N tokens over {a 1 0 2.5 ( ) [ ] + - : * / ** ~ |}; fuzz: random sequences of 1-12 atoms "
    "(names, numbers, quotes, braces, %, unicode, control characters, operators, brackets, backticks, dots) with random glue; "
    "mutations: delete/duplicate/swap/insert one or two characters of a valid generated formula; each x (intercept, flag subset, "
    "context). distinct = distinct (string, configuration)"
)
ASSUMPTIONS = [
    "a bare SyntaxError is excused only if some {...} or name(...) fragment of the input (found by the library's tokenizer or by my own scanner) is rejected by ast.parse",
    "step budget (PY_START events per parse): 4000 + 60*len + 6*len^2 for inputs of <= 24 characters; longer inputs are judged once the result is known, against 3e6 + 100*T*(log2 T + 2)^2 for a result of T terms (term sets legitimately grow like 2^k for 'a*b*c*...' and for powers of k-term operands), under a hard cap of 6e7 - reaching the cap is a violation unless the input holds an exponent of >= 4 digits, in which case the case is inconclusive; the very long inputs of the 'long' sub-monitor get 3e6 + len^2/5",
]

ALPHABET = ["a", "1", "0", "2.5", "(", ")", "[", "]", "+", "-", ":", "*", "/", "**", "~", "|"]
ATOMS = ALPHABET + ["b", "x1", "`a b`", "`", "``", "{", "}", "{a+b}", "{a +", "f(", "f(a)", "f(a", "g(a, b)", "h()", ",", "%in%", "%", "%in", "in",
                   "^", "**0", "**2", "**(0)", "**00", "**1.2.3", "**-1", "(a-a)", "(a-a)/b", ".", "..", "a.b", "'", '"', "'s'", '"s"', "'a", "\\",
                   "é", "名", "\t", "\n", "\x00", "\x0b", " ", "  ", "~~", "||", "|~", "[a~b]", "[[a~b]~c]", "]~", "=", "<", ">", "!", "@", "#", "$",
                   "&", ";", "?", "1e5", "1.", ".5", "00", "1_000", "0x1", "-0", "+0", "- 0", "f(``)", "f(`class`)", "I(`x`", "{`}", "`{`", "C(a, contr.treatment)",
                   "lambda", "class", "None", "a:b:c", "a*b", "(", ")", "log(d[0].x)", "f((a + b).real)", "{d[0].x}", "np.log(df['y'].values)",
                   "**'2'", "^\"b\"", "**...", "**('x')", "**1e2", "**True", "**None", "f('a'.upper())", "{[i for i in a]}", "{lambda: 0}", "f(*a, **b)", "{a if b else c}", "~", "~", "~",
                   # lone surrogates (a Python str may hold them; Python itself cannot compile them)
                   'f("\ud800")', "{\udfff}", "\ud800", "`\ud800`", "g(a\udc00)",
                   # exponents far beyond anything enumerable: only their parity with the number of terms can matter
                   "[c ~ d]", "[c~a] +", "2:a", "2:a +", "3:b:a", "2:a_hat", "+ .", "2.5:y", "**99999999999999999999", "^9999999999", "**(12345678901234567890123)", "** 18446744073709551616", "**7", "^12", "**40", "**5"]
FLAGSETS = c01.FLAG_SUBSETS
_PARSERS: dict = {}


def parser_for(icpt: bool, flags):
    from formulaic.parser import DefaultFormulaParser

    key = (icpt, tuple(flags))
    if key not in _PARSERS:
        ff = DefaultFormulaParser.FeatureFlags.NONE
        for f in flags:
            ff |= getattr(DefaultFormulaParser.FeatureFlags, f)
        _PARSERS[key] = DefaultFormulaParser(include_intercept=icpt, feature_flags=ff)
    return _PARSERS[key]


# ------------------------------------------------------------------ logical step counter


class StepLimit(BaseException):
    pass


class StepCounter:
    """Counts PY_START events (function entries) while active; raises StepLimit past the budget."""

    TOOL = 3

    def __init__(self):
        self.count = 0
        self.limit = 0
        self.ok = False
        mon = getattr(sys, "monitoring", None)
        if mon is None:
            return
        try:
            mon.use_tool_id(self.TOOL, "fxmon-steps")
            mon.register_callback(self.TOOL, mon.events.PY_START, self._cb)
            self.ok = True
        except Exception:  # noqa: BLE001
            self.ok = False

    def _cb(self, code, offset):
        self.count += 1
        if self.count > self.limit:
            sys.monitoring.set_events(self.TOOL, 0)
            raise StepLimit()

    def start(self, limit):
        self.count = 0
        self.limit = limit
        if self.ok:
            sys.monitoring.set_events(self.TOOL, sys.monitoring.events.PY_START)

    def stop(self):
        if self.ok:
            sys.monitoring.set_events(self.TOOL, 0)
        return self.count


_STEPS = None


def steps():
    global _STEPS
    if _STEPS is None:
        _STEPS = StepCounter()
    return _STEPS


# ------------------------------------------------------------------ SyntaxError excuse


def python_fragments(s: str):
    """Own scanner: every {...} and name(...) region with balanced brackets (quotes respected)."""
    frags = []
    n = len(s)
    for i, ch in enumerate(s):
        if ch == "{" or (ch == "(" and i > 0 and (s[i - 1].isalnum() or s[i - 1] in "_.")):
            close = "}" if ch == "{" else ")"
            depth, j, q = 0, i, None
            while j < n:
                c = s[j]
                if q:
                    if c == "\\":
                        j += 1
                    elif c == q:
                        q = None
                elif c in "'\"`":
                    q = c
                elif c in "({[":
                    depth += 1
                elif c in ")}]":
                    depth -= 1
                    if depth == 0:
                        break
                j += 1
            if j < n and s[j] == close:
                if ch == "{":
                    frags.append(s[i + 1: j])
                else:
                    k = i
                    while k > 0 and (s[k - 1].isalnum() or s[k - 1] in "_."):
                        k -= 1
                    frags.append(s[k: j + 1])
            else:
                frags.append(s[i:])  # unbalanced: certainly not valid Python either
    return frags


def fragment_invalid(frag: str) -> bool:
    frag = re.sub(r"`[^`]*`", " _q_ ", frag)  # the library substitutes quoted names by space-delimited identifiers
    try:
        pyast.parse(frag.strip(), mode="eval")
        return False
    except SyntaxError:
        return True
    except Exception:  # noqa: BLE001  (ValueError for null bytes, RecursionError, ...)
        return True


def syntaxerror_excusable(s: str) -> bool:
    import importlib

    frags = list(python_fragments(s))
    try:  # the library tokenizes lazily: collect the Python tokens it yields before it (possibly) raises
        tk = importlib.import_module("formulaic.parser.algos.tokenize").tokenize
        for t in tk(s):
            if t.kind.value == "python":
                frags.append(t.token)
    except Exception:  # noqa: BLE001
        pass
    return any(fragment_invalid(f) for f in frags)


# ------------------------------------------------------------------ oracle


def judge(case) -> Outcome:
    from formulaic import Formula
    from formulaic.errors import FormulaParsingError

    out = Outcome()
    s = case["s"]
    cfg = (case["icpt"], tuple(case["flags"]), case.get("ctx", False), case.get("entry", "Formula"))
    out.sig = (s, cfg)
    parser = parser_for(case["icpt"], case["flags"])
    ctx = {"__formulaic_variables_available__": ["a", "b", "c", "y"]} if case.get("ctx") else None
    st = steps()
    # short inputs: polynomial budget; longer generated inputs may legitimately expand to 2^k terms ('a*b*c*...', '(..)**3'),
    # so only a flat cap (orders of magnitude above anything the bounded generators need) guards termination there
    short = len(s) <= 24
    limit = 4000 + 60 * len(s) + 6 * len(s) ** 2 if short else 3_000_000
    if case.get("long"):  # thousands of operands: ordering them is legitimately quadratic
        limit = 3_000_000 + len(s) ** 2 // 5
    # Longer inputs may denote very many terms ('a*b*c*...' has 2^k, a power of a k-term operand up to 2^k): the work is then
    # judged against the size of the *result* once it is known; while running, only a generous hard cap applies.
    hard = limit if short or case.get("long") else 60_000_000
    st.start(hard)
    try:
        if case.get("entry", "Formula") == "Formula":
            res = Formula(s, _parser=parser, _context=ctx)
        else:
            res = parser.get_terms(s, context=ctx)
        n = st.stop()
        out.see("parsed")
        if hard != limit:
            try:
                T = sum(len(x) for x in res._flatten()) if hasattr(res, "_flatten") else len(res)
            except Exception:  # noqa: BLE001
                T = 0
            allowed = limit + int(100 * T * (math.log2(T + 2) + 2) ** 2)
            if n > allowed:
                out.fail("c14.step_budget_exceeded", f"{s!r} cfg={cfg}: {n} function entries for a result of {T} terms (budget {allowed})")
                return out
    except StepLimit:
        st.stop()
        if hard != limit and re.search(r"(\*\*|\^)[\s(]*\d{4,}", s):
            out.decided = False  # a huge power of a many-term operand: the result itself may hold 2^k terms; not decidable within the cap
            out.see("hard_cap_with_huge_exponent")
            return out
        out.fail("c14.step_budget_exceeded", f"{s!r} cfg={cfg}: more than {hard} function entries (non-termination or super-polynomial work)")
        return out
    except FormulaParsingError:
        n = st.stop()
        out.see("rejected_with_parsing_error")
    except SyntaxError as e:
        n = st.stop()
        if syntaxerror_excusable(s):  # SyntaxError or its built-in subclasses (IndentationError, TabError) from Python's own parser
            out.see("python_fragment_syntax_error")
        else:
            out.fail("c14.bare_syntaxerror", f"{s!r} cfg={cfg}: {type(e).__name__}: {str(e)[:100]} but no embedded Python fragment is invalid")
    except NotImplementedError as e:
        n = st.stop()
        if "MULTISTAGE" in case["flags"] and s.count("[") >= 2 and "~" in s:
            out.fail("c14.multistage_not_implemented", f"{s!r}: NotImplementedError {str(e)[:80]}")
        else:
            out.fail("c14.internal_exception", f"{s!r} cfg={cfg}: NotImplementedError: {str(e)[:100]}")
    except TypeError as e:
        n = st.stop()
        if "MULTISTAGE" in case["flags"] and s.count("[") >= 2 and "'list' and 'list'" in str(e):
            out.fail("c14.multistage_list_union", f"{s!r} cfg={cfg}: TypeError: {str(e)[:80]}")
        else:
            out.fail("c14.internal_exception", f"{s!r} cfg={cfg}: TypeError: {str(e)[:120]}")
    except RecursionError as e:
        n = st.stop()
        import traceback

        tb = traceback.extract_tb(e.__traceback__)
        if len(tb) > 500 and any(t.name == "format_expr" for t in tb) and sum(t.filename.endswith("/ast.py") for t in tb) > len(tb) // 2:
            # finding K8: the standard library's unparser recurses once per nested operator of a Python fragment
            out.fail("c14.deep_python_fragment", f"{s[:60]!r}.. ({len(s)} chars) cfg={cfg}: RecursionError from ast.unparse while normalising a Python fragment")
        else:
            out.fail("c14.internal_exception", f"{s[:200]!r} cfg={cfg}: RecursionError")
    except Exception as e:  # noqa: BLE001
        n = st.stop()
        import traceback

        tb = traceback.extract_tb(e.__traceback__)
        where = f"{tb[-1].name}:{tb[-1].lineno}" if tb else "?"
        out.fail("c14.internal_exception", f"{s!r} cfg={cfg}: {type(e).__name__} escaped from {where}: {str(e)[:120]}")
    if st.ok:
        out.states.append(f"steps<={(1 << max(0, n.bit_length()))}")
    return out


# ------------------------------------------------------------------ workloads


def enum_tokens(tier: str):
    maxlen = 4 if tier == "quick" else 5
    k = 0
    for n in range(0, maxlen + 1):
        for seq in itertools.product(ALPHABET, repeat=n):
            s = " ".join(seq) if k % 3 else "".join(seq)
            cfgi = k % 4
            k += 1
            yield {"s": s, "icpt": cfgi % 2 == 0, "flags": ["TWOSIDED", "MULTIPART"] if cfgi < 2 else ["TWOSIDED", "MULTIPART", "MULTISTAGE"],
                   "ctx": False, "entry": "get_terms" if k % 5 == 0 else "Formula"}


def rand_cfg(rng):
    return {"icpt": rng.random() < 0.5, "flags": rng.choice(FLAGSETS), "ctx": rng.random() < 0.3,
            "entry": rng.choice(["Formula", "get_terms"])}


BIG_EXPONENT = re.compile(r"(\*\*|\^)[\s(+\-]*(?!\d{10,})(\d*[4-9]|\d\d)")


def gen_fuzz(rng: random.Random, tier: str) -> dict:
    while True:
        n = rng.randint(1, 12)
        glue = rng.choice(["", " ", " ", "mixed"])
        parts = [rng.choice(ATOMS) for _ in range(n)]
        s = "".join(p + (rng.choice(["", " "]) if glue == "mixed" else glue) for p in parts)
        return {"s": s, **rand_cfg(rng)}  # (any exponent: a power costs no more than the size of its result)


def gen_mutation(rng: random.Random, tier: str) -> dict:
    base = c01.gen_algebra(rng, "quick")["s"]
    s = list(base)
    for _ in range(rng.choice([1, 1, 2, 3])):
        op = rng.choice(["del", "dup", "swap", "ins", "ins"])
        if not s:
            op = "ins"
        i = rng.randrange(len(s)) if s else 0
        if op == "del":
            del s[i]
        elif op == "dup":
            s.insert(i, s[i])
        elif op == "swap" and len(s) > 1:
            j = rng.randrange(len(s))
            s[i], s[j] = s[j], s[i]
        else:
            s.insert(i, rng.choice(list("()[]{}`'\"%~|+-*/:^.,0 1a\\") + ["**", "%in%"]))
    s = "".join(s)
    return {"s": s, **rand_cfg(rng)}


# ---- very long and very deep inputs: the answer must still be a formula or the library's error (never RecursionError & co.)


def gen_long(rng: random.Random, tier: str) -> dict:
    n = rng.choice([300, 1100, 1100, 1600, 2600])
    sep = rng.choice([" + ", " + ", "+", " : ", " - ", "*"]) if n <= 1100 else rng.choice([" + ", "+", " : ", " - "])
    if sep == "*":
        n = 12  # (a product of n operands denotes 2^n terms)
    chain = sep.join(f"x{i}" for i in range(n))
    tpl = rng.choice(["{c} z", "y ~ {c}", "y ~ offset ({c})", "{c} | w", "z {c}", "({c}) w", "{c}", "y ~ {c} ~ z", "f({c}) g", "{p}a{q}", "{p}a b{q}",
                      "(a+b){e} c", "[ y ~ {c} ] ~ z", "{c} )", "( {c}", "`{c}` + `{c}", "{{{c}}} u",
                      # valid Python the interpreter itself cannot re-format: an integer literal beyond the conversion limit; deep calls
                      "f(0x{h}) + a", "{{ {d} }}", "f(a{m})", "g({u}a) u"])
    depth = rng.choice([200, 600, 1500])
    s = tpl.format(c=chain, p="(" * depth, q=")" * depth, e="**1" * min(n, 1200), h="F" * rng.choice([100, 5000]), d="1" * rng.choice([50, 4500]),
                   m=".b" * rng.choice([10, 3000]), u="-" * rng.choice([5, 3000]))
    return {"s": s, "long": True, **rand_cfg(rng)}


# ---- disabled operators must be rejected (generator-rendered, so the operator is known to sit in operator position)


def gen_flags(rng: random.Random, tier: str) -> dict:
    g = c01.Gen(rng, False, 2, names=["a", "b", "c", "x1", "f(a)", "`q|r`", "`s~t`", "{a|b}", "g(a, '~')"], bad_exponents=False)
    kind = rng.choice(["twosided", "multipart", "multistage", "none"])
    rhs = c01.render_chain(c01.fix_chain(g.sumchain(2)), rng)
    lhs = c01.render_chain(c01.fix_chain(g.sumchain(1, small=True)), rng)
    if kind == "twosided":
        s = f"{lhs} ~ {rhs}"
    elif kind == "multipart":
        s = f"{rhs} | {c01.render_chain(c01.fix_chain(g.sumchain(1)), rng)}"
        if rng.random() < 0.5:
            s = f"{lhs} ~ {s}"
            kind = "twosided+multipart"
    elif kind == "multistage":
        s = f"y ~ [ {lhs} ~ {rhs} ] + c"
    else:
        s = ("~ " if rng.random() < 0.3 else "") + rhs
    case = {"s": s, "uses": kind, "icpt": rng.random() < 0.5, "flags": rng.choice(FLAGSETS)}
    if rng.random() < 0.4:  # the parser was configured differently (and used) before: reconfiguration history
        case["prev_flags"] = [rng.choice(FLAGSETS) for _ in range(rng.randint(1, 2))]
    if rng.random() < 0.25:
        case["extended"] = rng.choice(["ctor", "set"])
    if rng.random() < 0.3:  # the configured parser reaches the call as a copy
        case["clone"] = rng.choice(["deepcopy", "pickle", "copy"])
    if rng.random() < 0.25:  # another parser was derived from this one (dataclasses.replace) with other flags, and used
        case["sibling"] = rng.choice(FLAGSETS)
    return case


def reconfigured_parser(case):
    """A fresh parser that went through earlier flag configurations, parsing under each, before the one under test."""
    from formulaic.errors import FormulaParsingError
    from formulaic.parser import DefaultFormulaParser

    def ff(names):
        v = DefaultFormulaParser.FeatureFlags.NONE
        for nm in names:
            v |= getattr(DefaultFormulaParser.FeatureFlags, nm)
        return v

    hist = case["prev_flags"]
    parser = DefaultFormulaParser(include_intercept=case["icpt"], feature_flags=ff(hist[0]))
    for k, names in enumerate(hist):
        if k:
            parser.set_feature_flags(ff(names) if k % 2 else {nm.lower() for nm in names})
        for probe in ("a + b", "y ~ a", "a | b", "y ~ [a ~ b] + c"):
            try:
                parser.get_terms(probe)
            except FormulaParsingError:
                pass
    parser.set_feature_flags(ff(case["flags"]))
    return parser


def extended_resolver_class():
    """A module-level (hence picklable) subclass of the default resolver, created on first use."""
    if "ExtendedResolver" not in globals():
        from formulaic.parser import DefaultOperatorResolver

        cls = type("ExtendedResolver", (DefaultOperatorResolver,), {"__module__": __name__})
        globals()["ExtendedResolver"] = cls
    return globals()["ExtendedResolver"]


def judge_flags(case) -> Outcome:
    from formulaic import Formula
    from formulaic.errors import FormulaParsingError

    out = Outcome()
    out.sig = (case["uses"], tuple(case["flags"]), case["icpt"], len(case["s"]), repr(case.get("prev_flags")), case.get("clone"), case.get("extended"), repr(case.get("sibling")))
    needs = {"twosided": ["TWOSIDED"], "multipart": ["MULTIPART"], "twosided+multipart": ["TWOSIDED", "MULTIPART"],
             "multistage": ["TWOSIDED", "MULTISTAGE"], "none": []}[case["uses"]]
    disabled = [f for f in needs if f not in case["flags"]]
    try:
        parser = reconfigured_parser(case) if case.get("prev_flags") else parser_for(case["icpt"], case["flags"])
        if case.get("extended") and not case.get("prev_flags"):
            # the documented way to add operators: a subclass of the default resolver, handed to the parser
            from formulaic.parser import DefaultFormulaParser

            Extended = extended_resolver_class()
            ff = DefaultFormulaParser.FeatureFlags.NONE
            for nm in case["flags"]:
                ff |= getattr(DefaultFormulaParser.FeatureFlags, nm)
            if case["extended"] == "ctor":
                parser = DefaultFormulaParser(include_intercept=case["icpt"], feature_flags=ff, operator_resolver=Extended())
            else:
                parser = DefaultFormulaParser(include_intercept=case["icpt"], operator_resolver=Extended())
                parser.set_feature_flags(ff)
        if case.get("sibling") is not None:
            import dataclasses

            from formulaic.parser import DefaultFormulaParser as _P

            sff = _P.FeatureFlags.NONE
            for nm in case["sibling"]:
                sff |= getattr(_P.FeatureFlags, nm)
            sib = dataclasses.replace(parser, feature_flags=sff)
            for probe in ("a + b", "y ~ a | b"):
                try:
                    sib.get_terms(probe)
                except FormulaParsingError:
                    pass
        if case.get("clone"):
            import copy
            import pickle

            parser = {"deepcopy": copy.deepcopy, "copy": copy.copy, "pickle": lambda p: pickle.loads(pickle.dumps(p))}[case["clone"]](parser)
        Formula(case["s"], _parser=parser)
        if disabled:
            out.fail("c14.disabled_operator_accepted", f"{case['s']!r} parsed although {disabled} disabled (flags {case['flags']})")
        else:
            out.see("enabled_parsed")
    except FormulaParsingError as e:
        if disabled:
            out.see("disabled_rejected")
        elif "empty" in str(e) or "at least one term" in str(e) or "already seen" in str(e):
            out.decided = False  # generated operand happened to be an empty set / scaling clash: C01's business
        else:
            out.fail("c14.enabled_operator_rejected", f"{case['s']!r} rejected with all needed flags {needs} enabled: {str(e)[:120]}")
    except Exception as e:  # noqa: BLE001
        out.fail("c14.internal_exception", f"{case['s']!r} flags={case['flags']}: {type(e).__name__}: {str(e)[:120]}")
    return out


def _p(s, flags=("TWOSIDED", "MULTIPART"), icpt=True, ctx=False):
    return ("fuzz", {"s": s, "icpt": icpt, "flags": list(flags), "ctx": ctx, "entry": "Formula"})


PINNED = [_p("(a]"), _p("a**(0)"), _p("a**00"), _p("a**1.2.3"), _p("(a-a)/b"), _p("b %in% (a-a)"), _p("f(``)"), _p("f(`class`)"),
          _p("y ~ .", icpt=False, ctx=True), _p("a:--b"), _p("[[a~b]~c]", flags=("TWOSIDED", "MULTIPART", "MULTISTAGE")),
          _p("[a ~ b] + [c ~ d]", flags=("TWOSIDED", "MULTIPART", "MULTISTAGE"), icpt=False), _p("2:a + .", ctx=True), _p("y ~ 3:b + . + 2:a", ctx=True),
          _p("2:a_hat + [a ~ b]", flags=("TWOSIDED", "MULTIPART", "MULTISTAGE")), _p("[a ~ b]:2 + [a ~ c]", flags=("TWOSIDED", "MULTIPART", "MULTISTAGE")), _p("log(d[0].x) ~ z"), _p("f((a + b).real) ~ x"), _p("{"), _p("`"), _p("'"), _p("a %in"), _p("")]
SUBS = {
    "tokens_exhaustive": Sub(judge=judge, enum=enum_tokens, min_decided=10000),
    "fuzz": Sub(judge=judge, gen=gen_fuzz, quick=30000, thorough=1_500_000, min_decided=5000),
    "mutation": Sub(judge=judge, gen=gen_mutation, quick=15000, thorough=800_000, min_decided=3000),
    "flags": Sub(judge=judge_flags, gen=gen_flags, quick=3000, thorough=150_000, min_decided=500),
    "long": Sub(judge=judge, gen=gen_long, quick=160, thorough=4000, min_decided=40),
}
