"""C10 - model-spec metadata indexes the generated columns truthfully."""

from __future__ import annotations

import collections
import random

import numpy as np

from ..core import Outcome, Sub
from ..data import dense, make_frame, quiet

ID = "C10"
DESIGN_REF = "DESIGN.md section 4 / C10"
TECHNIQUE = "runtime monitoring: metadata monitor - every index/lookup of every materialized spec is recomputed from the actual columns (names, contiguous term ranges, lookups by object/printed form/column name, variable indices, subset == parent's columns)"
LEVEL_TEXT = (
    "For random formulas (interactions with unsorted factor order, zero-column terms from single-level categoricals, multi-column "
    "transforms, two-sided formulas) materialized by the real code in all three outputs, the monitor recomputes what the metadata "
    "should say from the actual matrix and compares ~40 lookups per spec; a random subset of the terms (in shuffled order, with "
    "and without re-ordering) must regenerate exactly the parent's columns at get_term_indices(). Held-on-observed."
)
LEVEL_NOTE = "trusts: the generator's record of which variables each factor uses"
RULE = (
    "random (2-5 factor encodings from bare/poly/bs/log/C()/center/I(), 1-5 distinct terms of order 1-3 with shuffled factor order, "
    "level counts 1-3, intercept, output, optional lhs); distinct = (term shapes by factor kind, zero-column terms present, output, "
    "subset pattern)"
)
ASSUMPTIONS = ["a column name that coincides with a term's printed form (e.g. 'x') legitimately resolves get_slice() to the term"]

ATOMS = {"A": ["A"], "B": ["B"], "G": ["G"], "x": ["x"], "y": ["y"], "z": ["z"], "poly(x, 2)": ["x"], "log(z ** 2)": ["z"], "bs(y, df=3)": ["y"],
         "C(B, contr.sum)": ["B"], "center(x)": ["x"], "I(x * y)": ["x", "y"], "C(G)": ["G"], "scale(z)": ["z"], "poly(y, 3)": ["y"],
         "poly(center(z), 2)": ["z"], "I(center(x) ** 2)": ["x"], "scale(log(z ** 2 + 1))": ["z"],
         # a multi-column factor supplied by the caller's context as a mapping of sub-columns
         "extras": [],
         # a factor whose own text holds a ':' (printed back-quoted inside a term)
         "I(x[0:])": ["x"]}


def make_ctx(rows, order="uvw"):
    """Context holding the mapping-valued factor `extras` for the given original row numbers, keys inserted in `order`."""
    full = {"u": [float(i % 4) for i in rows], "v": [float((i * i) % 7) - 2.5 for i in rows], "w": [0.5 * i for i in rows]}
    return {"extras": {k: np.array(full[k]) for k in order}}


def gen_case(rng: random.Random, tier: str) -> dict:
    n = 12
    levels = {"A": rng.randint(1, 3), "B": rng.randint(1, 3), "G": rng.randint(2, 3)}
    cols = []
    for c, k in levels.items():
        lv = [f"{c.lower()}{i}" for i in range(k)]
        vals = lv + [rng.choice(lv) for _ in range(n - k)]
        rng.shuffle(vals)
        cols.append([c, {"kind": "cat", "categories": lv, "values": vals}])
    for v in "xyz":
        cols.append([v, {"kind": "num", "dtype": "float64", "values": [round(rng.gauss(0, 1), 5) for _ in range(n)]}])
    chosen = rng.sample(list(ATOMS), rng.randint(2, 5))
    terms, seen = [], set()
    for _ in range(rng.randint(1, 5)):
        fs = rng.sample(chosen, rng.randint(1, min(3, len(chosen))))
        if frozenset(fs) not in seen:
            seen.add(frozenset(fs))
            terms.append(fs)
    icpt = rng.random() < 0.7
    f = " + ".join((["1"] if icpt else ["0"]) + [":".join(t) for t in terms])
    lhs = rng.random() < 0.2
    if lhs:
        f = "y + x ~ " + f
    k = rng.randint(1, len(terms) + (1 if icpt else 0))
    return {"cols": cols, "formula": f, "lhs": lhs, "output": rng.choice(["pandas", "numpy", "sparse"]), "subset_k": k,
            "cluster": rng.choice([None, None, "numerical_factors"]), "ordering": rng.choice(["degree", "degree", "none", "sort"]),
            "subset_seed": rng.randrange(1 << 30), "shape": sorted(len(t) for t in terms), "levels": levels,
            "ctx_order": "".join(rng.sample("uvw", 3))}


def gen_split(name):
    from ..gen import split_label

    return split_label(name)


def check_spec(ms, M, mm, out, tag, case):
    ncol = M.shape[1]
    names = list(ms.column_names)
    if len(names) != ncol:
        out.fail("c10.column_count", f"{tag}: {len(names)} names for {ncol} columns")
        return False
    if case["output"] == "pandas" and list(mm.columns) != names:
        out.fail("c10.column_names", f"{tag}: spec names {names} != frame labels {list(mm.columns)}")
    cat = [i for idx in ms.term_indices.values() for i in idx]
    if cat != list(range(ncol)):
        out.fail("c10.term_ranges", f"{tag}: term index ranges {dict((str(k), v) for k, v in ms.term_indices.items())} do not tile 0..{ncol - 1} in order")
        return False
    if sorted(map(str, ms.term_indices)) != sorted(map(str, ms.formula)):
        out.fail("c10.term_order", f"{tag}: term_indices terms {[str(t) for t in ms.term_indices]} != formula terms {[str(t) for t in ms.formula]}")
    elif [t for t in ms.term_indices] != list(ms.formula) and not case.get("cluster"):
        out.fail("c10.term_order", f"{tag}: term_indices order {[str(t) for t in ms.term_indices]} != formula order {[str(t) for t in ms.formula]}")
    # every term's index range must hold exactly the columns whose names are built from that term's factors
    for t, idx in ms.term_indices.items():
        facs = [x.expr for x in t.factors if x.eval_method.value != "literal"]
        for j in idx:
            nm = names[j]
            if nm == "Intercept":
                ok = True
            else:
                parts = gen_split(nm)
                # (under rank reduction a term may also emit lower-order columns: sub-labels are a subset of its factors)
                owners = [next((fe for fe in facs if p == fe or p.startswith(fe + "[")), None) for p in parts]
                ok = None not in owners and len(set(owners)) == len(owners)
            if not ok:
                out.fail("c10.term_indices_wrong_columns", f"{tag}: term {t} is indexed to column {j} named {nm!r}, which is not built from its factors {facs}")
                return False
    for t, idx in ms.term_indices.items():
        sl = ms.term_slices[t]
        if list(range(*sl.indices(ncol))) != idx:
            out.fail("c10.term_slices", f"{tag}: slice {sl} of {t} != indices {idx}")
        fs = [x.expr for x in t.factors]
        for key, kind in ((t, "object"), (str(t), "printed")):
            try:
                a = ms.term_indices[key]
                b = ms.get_slice(key)
                c = ms.get_term_indices([key] if kind == "printed" else [key])
                if a != idx or list(range(*b.indices(ncol))) != idx or list(c) != idx:
                    out.fail("c10.lookup_wrong", f"{tag}: lookup of term {key!r} by {kind} gives {a}/{b}/{list(c)} expected {idx}")
            except (KeyError, ValueError) as e:
                if kind == "printed" and len(fs) >= 2 and fs != sorted(fs):
                    out.fail("c10.lookup_by_unsorted_printed_form", f"{tag}: lookup by printed form {key!r} fails ({type(e).__name__})")
                elif kind == "printed" and any(":" in x for x in fs):
                    out.fail("c10.lookup_by_printed_form_colon_in_factor", f"{tag}: lookup by printed form {key!r} fails ({type(e).__name__}): a factor's own text holds ':'")
                else:
                    out.fail("c10.lookup_raised", f"{tag}: lookup of {key!r} by {kind}: {type(e).__name__}: {str(e)[:100]}")
            out.see("lookups")
    term_strs = {str(t) for t in ms.term_indices}
    for j, name in enumerate(names):
        try:
            if list(ms.get_column_indices(name)) != [j] or ms.column_indices[name] != j:
                out.fail("c10.column_lookup", f"{tag}: column {name!r} resolves to {ms.get_column_indices(name)} / {ms.column_indices[name]}, expected {j}")
            sl = ms.get_slice(name)
            if list(range(*sl.indices(ncol))) != [j] and name not in term_strs:
                out.fail("c10.column_slice", f"{tag}: get_slice({name!r}) = {sl}, expected column {j}")
        except Exception as e:  # noqa: BLE001
            out.fail("c10.column_lookup", f"{tag}: column {name!r}: {type(e).__name__}: {str(e)[:100]}")
    expv = collections.defaultdict(set)
    for t, idx in ms.term_indices.items():
        for fac in t.factors:
            for v in ATOMS.get(fac.expr, []):
                expv[v].update(idx)
    for v in "ABGxyz":
        got = ms.variable_indices.get(v)
        exp = sorted(expv[v]) if v in expv else None
        if exp != (sorted(got) if got is not None else None) and not (exp == [] and got in (None, [])) and not (exp is None and got in (None, [])):
            out.fail("c10.variable_indices", f"{tag}: variable {v}: indices {got} expected {exp}")
    # derived mappings: term<->factor<->variable relations must be mutually consistent and match the generator's record
    try:
        for t in ms.term_indices:
            if set(ms.term_factors[t]) != set(t.factors):
                out.fail("c10.term_factors", f"{tag}: term_factors[{t}] = {ms.term_factors[t]}")
            want_vars = {v for fac in t.factors for v in ATOMS.get(fac.expr, [])}
            got_vars = {str(v) for v in ms.term_variables[t]}
            if ms.term_indices[t] and not want_vars <= got_vars:  # (only terms that emitted columns)
                out.fail("c10.term_variables", f"{tag}: term_variables[{t}] = {sorted(got_vars)} lacks {sorted(want_vars - got_vars)}")
        for fac, terms in ms.factor_terms.items():
            if {t for t in ms.term_indices if fac in t.factors} != set(terms):
                out.fail("c10.factor_terms", f"{tag}: factor_terms[{fac}] = {terms}")
        for v, terms in ms.variable_terms.items():
            if str(v) in "ABGxyz":
                # (a term whose span was already covered by earlier terms emits no scoped term and hence uses no variable)
                emitting = {row[0] for row in ms.structure if len(list(row[1])) > 0}
                want = {t for t in ms.term_indices if t in emitting and any(str(v) in ATOMS.get(fac.expr, []) for fac in t.factors)}
                if want != set(terms):
                    out.fail("c10.variable_terms", f"{tag}: variable_terms[{v}] = {[str(t) for t in terms]} expected {[str(t) for t in want]}")
                if list(ms.get_variable_indices([str(v)])) != list(ms.variable_indices[v]):
                    out.fail("c10.get_variable_indices", f"{tag}: get_variable_indices([{v}]) != variable_indices[{v}]")
        for j in range(ncol):
            if ms.get_slice(j) != slice(j, j + 1) or ms.get_slice(slice(0, j)) != slice(0, j):
                out.fail("c10.get_slice_int", f"{tag}: get_slice({j})")
        try:
            ms.get_slice("no_such_column_or_term")
            out.fail("c10.get_slice_missing", f"{tag}: get_slice of an unknown identifier did not raise")
        except ValueError:
            pass
        for fac, cs in ms.factor_contrasts.items():
            lv = {"A": case["levels"].get("A"), "B": case["levels"].get("B"), "G": case["levels"].get("G")}
            var = next((v for v in ATOMS.get(fac.expr, []) if v in lv), None)
            if var is not None and len(list(cs.levels)) != lv[var]:
                out.fail("c10.factor_contrasts", f"{tag}: factor_contrasts[{fac}] has levels {list(cs.levels)} for a {lv[var]}-level column")
        out.see("derived_mappings_checked")
    except Exception as e:  # noqa: BLE001
        out.fail("c10.derived_mappings_raised", f"{tag}: {type(e).__name__}: {str(e)[:150]}")
    return True


def judge(case) -> Outcome:
    from formulaic import model_matrix

    out = Outcome()
    zero_col = any(v == 1 for v in case["levels"].values())
    out.sig = (tuple(case["shape"]), zero_col, case["output"], case["lhs"], case["subset_k"], case.get("cluster"), case.get("ordering"))
    df = make_frame({"cols": case["cols"], "index": None})
    f = case["formula"]
    tag = f"{f!r} out={case['output']}"
    try:
        with quiet():
            kw = {"cluster_by": case["cluster"]} if case.get("cluster") else {}
            from formulaic import Formula

            res = Formula(f, _ordering=case.get("ordering", "degree")).get_model_matrix(df, output=case["output"], context=make_ctx(range(len(df))), **kw)
    except Exception as e:  # noqa: BLE001
        out.fail("c10.fit_raised", f"{tag}: {type(e).__name__}: {str(e)[:200]}")
        return out
    parts = [res.lhs, res.rhs] if case["lhs"] else [res]
    for mm in parts:
        ms = mm.model_spec
        M = dense(mm)
        if not check_spec(ms, M, mm, out, tag, case):
            return out
        # a copied or pickled spec answers lookups by (equal, newly built) term objects exactly as the original does
        try:
            import copy
            import pickle

            from formulaic.parser.types import Term

            for how, ms2 in (("pickle", pickle.loads(pickle.dumps(ms))), ("deepcopy", copy.deepcopy(ms))):
                for t in ms.formula:
                    fresh = Term(t.factors)
                    want = list(ms.term_indices[t])
                    try:
                        got = list(ms2.term_indices[fresh])
                        sl = ms2.get_slice(fresh)
                        if got != want or list(range(*sl.indices(M.shape[1]))) != want:
                            out.fail("c10.lookup_after_copy", f"{tag}: after {how}, term {t} -> indices {got} / slice {sl}, the original spec has {want}")
                    except (KeyError, ValueError) as e:
                        out.fail("c10.lookup_after_copy", f"{tag}: after {how}, looking term {t} up by an equal term object raises {type(e).__name__}")
                    out.see("copied_spec_lookups")
        except Exception as e:  # noqa: BLE001
            out.fail("c10.copy_raised", f"{tag}: {type(e).__name__}: {str(e)[:150]}")
        # the same spec used again, the caller's mapping-valued factor now listing its sub-columns in another order: every
        # reported name must still sit on its own column
        try:
            with quiet():
                again = ms.get_model_matrix(df, context=make_ctx(range(len(df)), case.get("ctx_order", "wvu")))
            if list(again.model_spec.column_names) != list(ms.column_names) or (case["output"] == "pandas" and list(again.columns) != list(ms.column_names)):
                out.fail("c10.reuse_columns_moved", f"{tag}: reuse reports {list(again.model_spec.column_names)} / labels {list(getattr(again, 'columns', []))}; fitted spec has {list(ms.column_names)}")
            elif not np.allclose(dense(again), M, equal_nan=True):
                out.fail("c10.reuse_columns_moved", f"{tag}: reuse with the context mapping in order {case.get('ctx_order')} puts other values under the reported names")
            out.see("reuses_checked")
        except Exception as e:  # noqa: BLE001
            out.fail("c10.reuse_raised", f"{tag}: {type(e).__name__}: {str(e)[:150]}")
        # subset: shuffled sample of the terms, default ordering and ordering='none'
        rng = random.Random(case["subset_seed"])
        terms = list(ms.formula)
        sub = rng.sample(terms, min(case["subset_k"], len(terms)))
        # the same terms named by one string, asked for under one ordering and then under another: each answer is its own
        if any(str(t) == "1" for t in terms) and not any("`" in str(t) for t in sub):
            from formulaic import Formula

            text = " + ".join(str(t) for t in sub if str(t) != "1") or "1"
            try:
                for o in ("none", "degree", "none", "sort"):
                    want = [i for t in Formula(text, _ordering=o) for i in ms.term_indices[t]]
                    got = list(ms.get_term_indices(text, ordering=o))
                    if got != want:
                        out.fail("c10.get_term_indices", f"{tag}: get_term_indices({text!r}, ordering={o!r}) = {got}, the terms of that formula in that order sit at {want}")
                        break
                out.see("string_specs_under_several_orderings")
            except Exception as e:  # noqa: BLE001
                out.fail("c10.get_term_indices", f"{tag}: get_term_indices({text!r}) raised {type(e).__name__}: {str(e)[:120]}")
        for kw in ({}, {"ordering": "none"}):
            try:
                with quiet():
                    ss = ms.subset(sub, **kw)
                    sm = ss.get_model_matrix(df, context=make_ctx(range(len(df)), case.get("ctx_order", "uvw")))
                S = dense(sm)
                order = list(ss.formula)
                if kw and order != sub:
                    out.fail("c10.subset_order", f"{tag}: subset(ordering='none') formula {[str(t) for t in order]} != requested {[str(t) for t in sub]}")
                idx = [i for t in order for i in ms.term_indices[t]]
                if list(ms.get_term_indices(sub, **kw)) != idx:
                    out.fail("c10.get_term_indices", f"{tag}: get_term_indices({[str(t) for t in sub]}, {kw}) != the subset's term ranges {idx}")
                if S.shape[1] != len(idx) or not np.allclose(S, M[:, idx], equal_nan=True) or list(ss.column_names) != [ms.column_names[i] for i in idx]:
                    out.fail("c10.subset_columns", f"{tag}: subset {[str(t) for t in sub]} {kw}: regenerated columns {list(ss.column_names)} != parent's columns {[ms.column_names[i] for i in idx]} (or values differ)")
                else:
                    check_spec(ss, S, sm, out, tag + f" [subset {kw}]", {**case, "output": "x"})
                    out.see("subsets_checked")
                # ... and on other data the subset spec must still reproduce the parent's columns (same recorded state)
                other = df.iloc[[1, 3, 4, 6, 8, 9, 11]].reset_index(drop=True)
                with quiet():
                    P2 = dense(ms.get_model_matrix(other, context=make_ctx([1, 3, 4, 6, 8, 9, 11])))
                    S2 = dense(ss.get_model_matrix(other, context=make_ctx([1, 3, 4, 6, 8, 9, 11], case.get("ctx_order", "uvw"))))
                if S2.shape[1] != len(idx) or not np.allclose(S2, P2[:, idx], equal_nan=True):
                    out.fail("c10.subset_other_data", f"{tag}: subset {[str(t) for t in sub]} {kw} on other data differs from the parent spec's columns on the same data")
            except Exception as e:  # noqa: BLE001
                out.fail("c10.subset_raised", f"{tag}: subset {[str(t) for t in sub]} {kw}: {type(e).__name__}: {str(e)[:150]}")
    return out


PINNED = [
    ("metadata", {"cols": [["A", {"kind": "cat", "categories": ["a0", "a1"], "values": ["a0", "a1"] * 6}], ["B", {"kind": "cat", "categories": ["b0", "b1"], "values": ["b0", "b0", "b1", "b1"] * 3}],
                           ["G", {"kind": "cat", "categories": ["g0", "g1"], "values": ["g0", "g1", "g1"] * 4}],
                           ["x", {"kind": "num", "dtype": "float64", "values": [float(i) for i in range(12)]}], ["y", {"kind": "num", "dtype": "float64", "values": [float(i * i % 7) for i in range(12)]}],
                           ["z", {"kind": "num", "dtype": "float64", "values": [float(i % 5) + 0.5 for i in range(12)]}]],
                  "formula": "1 + x + y + B:A", "lhs": False, "output": "pandas", "subset_k": 2, "subset_seed": 3, "shape": [1, 1, 2], "levels": {"A": 2, "B": 2, "G": 2}}),
]
SUBS = {"metadata": Sub(judge=judge, gen=gen_case, quick=3000, thorough=100_000, min_decided=300)}
