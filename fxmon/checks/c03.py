"""C03 - rank reduction yields a structurally full-rank matrix with unchanged span."""

from __future__ import annotations

import itertools
import random

import numpy as np

from ..core import Outcome, Sub
from ..data import dense, make_frame, quiet

ID = "C03"
DESIGN_REF = "DESIGN.md section 4 / C03"
TECHNIQUE = "runtime monitoring: boundary rank/span oracle (numpy matrix_rank on fully crossed designs in general position) over random term lattices, orders, contrasts and clusterings + exhaustive lattice for <= 3 variables"
LEVEL_TEXT = (
    "Random subsets of the interaction lattice over 1-4 categorical and 0-3 numeric variables (any term order, shuffled factor "
    "order, every built-in contrast, intercept on/off, every term ordering and clustering) are materialized by the real code on a "
    "fully crossed design with i.i.d. normal numerics and at least 4x more rows than columns; the reduced matrix must have rank = "
    "#columns and rank([reduced | full]) = rank(full) = rank(reduced). All 2^7-1 term subsets over 3 variables are enumerated "
    "exhaustively for two variable-kind patterns."
)
LEVEL_NOTE = "trusts: numpy.linalg.matrix_rank with its default tolerance on well-conditioned designs (>= 4x rows, unit-scale numerics)"
RULE = (
    "random (variables with random names so that numeric and categorical names interleave alphabetically, level counts 1-4, one "
    "factor expression per variable: bare / C(v) / C(v, contr.*) / treatment with explicit base; 1-7 terms from the lattice in "
    "random order; intercept; ordering none/degree/sort; cluster_by); distinct = (term lattice up to renaming within kind, level "
    "counts, contrasts, intercept, ordering, clustering)"
)
ASSUMPTIONS = ["each data variable is encoded by a single factor expression (as the property requires)"]

CONTRASTS = [None, None, "", "contr.treatment", "contr.SAS", "contr.sum", "contr.helmert", "contr.helmert(reverse=False)",
             "contr.helmert(scale=True)", "contr.diff", "contr.diff(backward=False)", "contr.poly", "BASE", "ONEHOT", "LEVELS", "LEVELS_SUM"]


def onehot(values):
    """A user-supplied encoding of the documented extension kind: a mapping of indicator columns that spans the intercept and
    names the column to drop when a reduced form is asked for."""
    from formulaic.materializers.types import FactorValues

    vals = list(values)
    levels = sorted(set(vals))
    return FactorValues({lv: np.array([1.0 if v == lv else 0.0 for v in vals]) for lv in levels}, kind="numerical",
                        spans_intercept=True, drop_field=levels[0], format="{name}[{field}]", encoded=False)


def rand_names(rng, k):
    names = []
    while len(names) < k:
        nm = rng.choice("abcdefghkmnpqrstuvwxyz") + rng.choice(["", "", "1", "_v", "x"])
        nm = nm.upper() if rng.random() < 0.4 else nm
        if nm.lower() not in {n.lower() for n in names} and nm not in ("C", "I", "Q", "np", "e", "E"):
            names.append(nm)
    return names


def build_case(rng, ncat, nnum, levels, terms_idx=None, exhaustive=False):
    names = rand_names(rng, ncat + nnum)
    rng.shuffle(names)
    cats, nums = names[:ncat], names[ncat:]
    lv = {c: [f"{c.lower()}{i}" for i in range(levels[i])] for i, c in enumerate(cats)}
    fexpr = {}
    for c in cats:
        k = rng.choice(CONTRASTS)
        if k is None:
            fexpr[c] = c
        elif k == "":
            fexpr[c] = f"C({c})"
        elif k == "ONEHOT":
            fexpr[c] = f"onehot({c})"
        elif k == "LEVELS":  # the level list written out (here: every level, in declared order)
            fexpr[c] = f"C({c}, levels={lv[c]!r})"
        elif k == "LEVELS_SUM":
            fexpr[c] = f"C({c}, contr.sum, levels={lv[c]!r})"
        elif k == "BASE":
            fexpr[c] = f"C({c}, contr.treatment(base='{rng.choice(lv[c])}'))"
        else:
            fexpr[c] = f"C({c}, {k})"
    for v in nums:
        # numeric factors incl. multi-column ones and one that itself spans the intercept (full B-spline basis)
        fexpr[v] = rng.choice([v, v, f"{{{v}*2}}", f"I({v}**3)", f"poly({v}, 2)", f"bs({v}, df=3)", f"bs({v}, df=4, include_intercept=True)"]
                              + ([f"cr({v}, df=3)", f"cc({v}, df=3)", f"cr({v}, df=3, constraints='center')"] if rng.random() < 0.25 else []))
    if cats and nums and rng.random() < 0.15:
        # a data column whose name is another column's name followed by '-' (only referable through backticks)
        odd = cats[0] + "-"
        fexpr[odd] = f"`{odd}`"
        del fexpr[nums[0]]
        nums = [odd] + nums[1:]
    vars_ = cats + nums
    lattice = [list(c) for r in range(1, len(vars_) + 1) for c in itertools.combinations(vars_, r)]
    if terms_idx is None:
        terms = rng.sample(lattice, rng.randint(1, min(7, len(lattice))))
    else:
        terms = [lattice[i] for i in terms_idx]
        rng.shuffle(terms)
    for t in terms:
        rng.shuffle(t)
    return {
        "cats": cats, "nums": nums, "levels": lv, "fexpr": fexpr, "terms": terms, "icpt": rng.random() < 0.6,
        "ordering": rng.choice(["none", "degree", "degree", "sort"]), "cluster": rng.choice([None, None, "numerical_factors"]),
        "seed": rng.randrange(1 << 30), "output": rng.choice(["numpy", "pandas", "sparse"]),
        # the term set as one part of a multi-part formula (a categorical response in front, or the same part twice): what an
        # earlier part spans is no business of a later one
        "multi": rng.choice([None, None, None, "lhs_cat", "twice"]) if not exhaustive else None,
    }


def full_cols_of(case) -> int:
    lv, fx = case["levels"], case["fexpr"]
    width = {v: (4 if "include_intercept" in fx[v] else 3 if fx[v].startswith(("bs(", "cr(", "cc(")) else 2 if "poly(" in fx[v] else 1) for v in case["nums"]}
    return sum(int(np.prod([len(lv[v]) if v in lv else width[v] for v in t])) for t in case["terms"]) + 1


def gen_case(rng: random.Random, tier: str) -> dict:
    while True:
        ncat = rng.randint(1, 4)
        nnum = rng.randint(0, 3)
        levels = [rng.choice([1, 2, 2, 3, 3, 4]) for _ in range(ncat)]
        case = build_case(rng, ncat, nnum, levels)
        if full_cols_of(case) <= 160:
            return case


def enum_lattice(tier: str):
    rng = random.Random(424242)
    patterns = [(2, 1), (3, 0)] if tier == "quick" else [(2, 1), (3, 0), (1, 2), (2, 2)]
    for ncat, nnum in patterns:
        nv = ncat + nnum
        nl = 2 ** nv - 1
        if nl > 7 and tier == "quick":
            continue
        for mask in range(1, 2 ** nl):
            idx = [i for i in range(nl) if mask >> i & 1]
            if nl > 7 and (mask * 2654435761) % 16:
                continue  # 15-element lattice: deterministic 1/16 sample
            for icpt in (True, False):
                case = build_case(rng, ncat, nnum, [rng.choice([2, 3]) for _ in range(ncat)], terms_idx=idx)
                case["icpt"] = icpt
                yield case


def design(case):
    import pandas as pd

    rng = np.random.default_rng(case["seed"])
    cats, nums, lv = case["cats"], case["nums"], case["levels"]
    cross = list(itertools.product(*[lv[c] for c in cats])) or [()]
    full_cols = full_cols_of(case)
    reps = max(2, -(-4 * full_cols // len(cross)))
    rows = cross * reps
    data = {c: pd.Categorical([r[i] for r in rows], categories=lv[c]) for i, c in enumerate(cats)}
    for v in nums:
        data[v] = rng.normal(size=len(rows))
    return pd.DataFrame(data)


def formula_of(case):
    terms = [":".join(case["fexpr"][v] for v in t) for t in case["terms"]]
    return " + ".join((["1"] if case["icpt"] else ["0"]) + terms)


def judge(case) -> Outcome:
    from formulaic import Formula

    out = Outcome()
    kinds = {v: ("c%d" % len(case["levels"][v])) for v in case["cats"]}
    kinds.update({v: "n" for v in case["nums"]})
    lattice_sig = tuple(sorted(tuple(sorted(kinds[v] for v in t)) for t in case["terms"]))
    contrasts = tuple(sorted(case["fexpr"][c].replace(c, "_") for c in case["cats"]))
    out.sig = (lattice_sig, contrasts, case["icpt"], case["ordering"], case["cluster"])
    df = design(case)
    f = formula_of(case)
    tag = f"{f!r} ordering={case['ordering']} cluster={case['cluster']} levels={ {k: len(v) for k, v in case['levels'].items()} } rows={len(df)}"
    multi = case.get("multi") if case["cats"] else None
    try:
        with quiet():
            fm = f if not multi else (f"{case['fexpr'][case['cats'][0]]} ~ {f}" if multi == "lhs_cat" else f"{f} | {f}")
            form = Formula(fm, _ordering=case["ordering"])
            kw = {"output": case["output"], "context": {"onehot": onehot}}
            if case["cluster"]:
                kw["cluster_by"] = case["cluster"]
            red = form.get_model_matrix(df, ensure_full_rank=True, **kw)
            full = form.get_model_matrix(df, ensure_full_rank=False, **kw)
            if multi:  # judge the last part (the right-hand side / the second copy)
                red, full = list(red._flatten())[-1], list(full._flatten())[-1]
                tag = f"[part of {fm!r}] " + tag
                out.see("multi_part_cases")
    except Exception as e:  # noqa: BLE001
        out.fail("c03.materialization_raised", f"{tag}: {type(e).__name__}: {str(e)[:200]}")
        return out
    R, F = dense(red), dense(full)
    if R.shape[1] == 0 and F.shape[1] == 0:
        out.decided = False
        return out
    rr = np.linalg.matrix_rank(R) if R.shape[1] else 0
    rf = np.linalg.matrix_rank(F) if F.shape[1] else 0
    rb = np.linalg.matrix_rank(np.hstack([R, F]))
    names = list(red.model_spec.column_names)
    if rr != R.shape[1]:
        # finding K13: an unconstrained cr()/cc() basis sums to one but declares that it does not span the intercept. The
        # deficiency is attributed to it only if dropping the first column of every such block (alone or inside products) leaves a
        # matrix of full column rank.
        cubic = [fx for fx in case["fexpr"].values() if fx.startswith(("cr(", "cc(")) and "constraints" not in fx]
        keep = [j for j, nm in enumerate(names) if not any(f"{fx}[1]" in nm for fx in cubic)]
        if cubic and len(keep) < len(names) and np.linalg.matrix_rank(R[:, keep]) == len(keep):
            out.fail("c03.unconstrained_cubic_spline_spans_intercept", f"{tag}: {R.shape[1]} columns, rank {rr}: the cr/cc basis {cubic} sums to one next to a term it is crossed with or the intercept")
        else:
            out.fail("c03.not_full_rank", f"{tag}: reduced matrix has {R.shape[1]} columns but rank {rr}; columns {names}")
    elif not (rr == rf == rb):
        out.fail("c03.span_changed", f"{tag}: rank(reduced)={rr}, rank(full)={rf}, rank([reduced|full])={rb}; columns {names}")
    if len(set(names)) != len(names):
        out.fail("c03.duplicate_columns", f"{tag}: duplicate column names {names}")
    # pattern of reduced/full factors actually emitted (distinct internal states seen)
    try:
        for row in red.model_spec.structure:
            for st in row[1]:
                out.states.append("|".join(sorted(("r" if sf.reduced else "f") + kinds.get(next((v for v in kinds if case["fexpr"][v] == sf.factor.expr), "?"), "?") for sf in st.factors)))
    except Exception:  # noqa: BLE001
        pass
    return out


def _pin(cats, nums, levels, fexpr, terms, icpt, ordering="degree"):
    return ("rank", {"cats": cats, "nums": nums, "levels": levels, "fexpr": fexpr, "terms": terms, "icpt": icpt, "ordering": ordering,
                     "cluster": None, "seed": 7, "output": "numpy"})


PINNED = [
    _pin(["sex", "site"], ["age"], {"sex": ["f", "m"], "site": ["s1", "s2", "s3"]}, {"sex": "sex", "site": "site", "age": "age"},
         [["age"], ["sex"], ["age", "sex"], ["sex", "age", "site"]], True),
    _pin(["A", "B", "C"], ["a"], {"A": ["a1", "a2"], "B": ["b1", "b2", "b3"], "C": ["c1", "c2"]}, {"A": "A", "B": "B", "C": "C", "a": "a"},
         [["A", "a"], ["B", "C"]], False),
    _pin(["A", "B"], ["a"], {"A": ["a1", "a2"], "B": ["b1", "b2", "b3"]}, {"A": "A", "B": "B", "a": "a"},
         [["a", "A"], ["a", "A", "B"]], True),
]
SUBS = {
    "rank": Sub(judge=judge, gen=gen_case, quick=1500, thorough=200_000, min_decided=300),
    "lattice_exhaustive": Sub(judge=judge, enum=enum_lattice, min_decided=200),
}
