"""C08 - text and categorical columns are dummy-coded; the matrix is always numeric."""

from __future__ import annotations

import itertools
import random

import numpy as np

from ..core import Outcome, Sub
from ..data import colnames, dense, quiet

ID = "C08"
DESIGN_REF = "DESIGN.md section 4 / C08"
TECHNIQUE = "runtime monitoring: dtype-matrix monitor - exhaustive sweep over every text/categorical/numeric column dtype x output x materializer x usage (alone, interaction, with nulls); expected level order / pass-through computed from the data; every cell checked numeric"
LEVEL_TEXT = (
    "Every column dtype pandas and pyarrow can produce for text (object, str, string[python], string[pyarrow], ArrowDtype string / "
    "large_string, mixed object), categorical (ordered/unordered, declared order != sorted, integer categories) and numeric data "
    "(int8..int64, uint8..uint64, Int64, float32/64, Float64, bool, boolean, arrow ints/floats) is pushed through the real "
    "materializers in every output type, alone, in an interaction and with nulls - an exhaustive sweep of that grid, plus random "
    "level sets. Text must come out as indicator columns over sorted levels, categoricals over declared order, numerics unchanged, "
    "and every cell of every result must be a number."
)
LEVEL_NOTE = "trusts: pandas/pyarrow construction of the input columns; cell-wise numeric test in fxmon.data.to_float"
RULE = (
    "exhaustive grid: 27 dtypes x {pandas, narwhals(pandas), narwhals(arrow where convertible)} x {pandas, numpy, sparse} x usage "
    "{alone, interaction with a numeric, with nulls, two text columns}; random: level sets (1-6 levels, unicode/space/numeric-looking "
    "labels, declared order permutations); distinct = grid point / (dtype, level count, label class, order class)"
)
ASSUMPTIONS = [
    "arrow dictionary (categorical) input reaches formulaic as text through narwhals: only sorted observed levels are asserted there",
]

TEXT_DTYPES = ["object", "str", "string[python]", "string[pyarrow]", "arrow_string", "arrow_large_string", "mixed_object"]
CAT_DTYPES = ["category", "category_ordered", "category_unsorted", "category_int", "category_unused", "category_bool"]
NUM_DTYPES = ["int8", "int16", "int32", "int64", "uint8", "uint16", "uint32", "uint64", "Int64", "float16", "float32", "float64", "Float64",
              "bool", "boolean", "arrow_int64", "arrow_float64"]
LEVELS = ["b", "a", "c"]
VALS = ["b", "a", "c", "a", "b", "c", "a", "a"]


def make_col(dtype, vals, levels, with_null):
    import pandas as pd
    import pyarrow as pa

    v = list(vals)
    if with_null:
        v[1] = None
    if dtype == "object":  # explicit Series: pandas >= 3 infers its string dtype from a plain object array
        return pd.Series(v, dtype=object)
    if dtype == "mixed_object":
        return np.array([str(x) if x is not None else None for x in v], dtype=object)
    if dtype in ("str", "string[python]", "string[pyarrow]"):
        return pd.array(v, dtype=dtype)
    if dtype == "arrow_string":
        return pd.array(v, dtype=pd.ArrowDtype(pa.string()))
    if dtype == "arrow_large_string":
        return pd.array(v, dtype=pd.ArrowDtype(pa.large_string()))
    if dtype == "category":
        return pd.Categorical(v, categories=sorted(levels))
    if dtype == "category_ordered":
        return pd.Categorical(v, categories=sorted(levels), ordered=True)
    if dtype == "category_unsorted":
        return pd.Categorical(v, categories=list(levels))
    if dtype == "category_unused":
        return pd.Categorical(v, categories=list(levels) + ["zz_unused"])
    if dtype == "category_int":
        m = {lv: i * 10 for i, lv in enumerate(levels)}
        return pd.Categorical([None if x is None else m[x] for x in v], categories=[m[lv] for lv in levels])
    if dtype == "category_bool":  # truth values as categories, declared True first
        return pd.Categorical([None if x is None else (x == levels[0]) for x in v], categories=[True, False])
    raise ValueError(dtype)


BIG = [2 ** 53 + 1, 2 ** 53 + 3, 4, 1, 5, 2 ** 60 + 1, 2, 6]


def make_num(dtype, n, with_null, big=False):
    import pandas as pd
    import pyarrow as pa

    base = (BIG if big else [3, 1, 4, 1, 5, 9, 2, 6])[:n]
    if dtype in ("bool", "boolean"):
        vals = [b % 2 == 0 for b in base]
    else:
        vals = list(base)
    if with_null and dtype in ("Int64", "Float64", "boolean", "float16", "float32", "float64", "arrow_int64", "arrow_float64"):
        vals[1] = None
    if dtype in ("Int64", "Float64", "boolean"):
        return pd.array(vals, dtype=dtype)
    if dtype == "arrow_int64":
        return pd.array(vals, dtype=pd.ArrowDtype(pa.int64()))
    if dtype == "arrow_float64":
        return pd.array([None if x is None else float(x) for x in vals], dtype=pd.ArrowDtype(pa.float64()))
    if dtype in ("float16", "float32", "float64"):
        return np.array([np.nan if x is None else x for x in vals], dtype=dtype)
    return np.array(vals, dtype=dtype)


def enum_grid(tier: str):
    for dtype in TEXT_DTYPES + CAT_DTYPES + NUM_DTYPES:
        for mat in ("pandas", "narwhals", "arrow", "dict"):
            for output in ("pandas", "numpy", "sparse"):
                for usage in ("alone", "interaction", "nulls", "two", "wrapped", "late"):
                    yield {"dtype": dtype, "mat": mat, "output": output, "usage": usage, "levels": LEVELS, "vals": VALS}
                if dtype in ("int64", "uint64", "Int64", "arrow_int64"):  # whole numbers a double cannot hold
                    yield {"dtype": dtype, "mat": mat, "output": output, "usage": "alone_big", "levels": LEVELS, "vals": VALS}


def gen_random(rng: random.Random, tier: str) -> dict:
    k = rng.randint(1, 6)
    pool = ["b", "a", "c", "Z", "é", "a b", "1", "10", "2", "x:y", "T.q", "[w]", "-", "名", "A", "_"]
    levels = rng.sample(pool, k)
    vals = levels + [rng.choice(levels) for _ in range(rng.randint(0, 8))]
    rng.shuffle(vals)
    return {"dtype": rng.choice(TEXT_DTYPES[:6] + ["category", "category_unsorted", "category_ordered", "category_unused"]),
            "mat": rng.choice(["pandas", "pandas", "narwhals", "arrow", "dict"]), "output": rng.choice(["pandas", "numpy", "sparse"]),
            "usage": rng.choice(["alone", "interaction", "nulls", "wrapped"]), "levels": levels, "vals": vals,
            "null_prefix": rng.choice([0, 0, 0, 1, 99, 100, 101, 140])}


def boolean_parts(mm):
    """Names/dtypes of parts of a model matrix that hold booleans rather than numbers."""
    import pandas as pd
    import scipy.sparse as sp

    obj = getattr(mm, "__wrapped__", mm)
    if sp.issparse(obj):
        return [str(obj.dtype)] if obj.dtype.kind == "b" else []
    if isinstance(obj, pd.DataFrame):
        return [f"{c}:{d}" for c, d in obj.dtypes.items() if str(d).lower().startswith("bool")]
    if isinstance(obj, np.ndarray):
        if obj.dtype.kind == "b":
            return ["bool ndarray"]
        if obj.dtype == object:
            return ["object ndarray with bool cells"] if any(isinstance(v, (bool, np.bool_)) for v in obj.ravel()) else []
        return []
    try:  # arrow / narwhals
        schema = getattr(obj, "schema", None)
        if schema is not None:
            return [f"{n}:{t}" for n, t in zip(schema.names, schema.types) if str(t).lower().startswith("bool")]
    except Exception:  # noqa: BLE001
        pass
    return []


def non_numeric_parts(mm):
    """Parts of a model matrix whose storage type is not a number type (an object array of numbers is not a numeric matrix)."""
    import pandas as pd
    import scipy.sparse as sp

    obj = getattr(mm, "__wrapped__", mm)
    if sp.issparse(obj) or isinstance(obj, np.ndarray):
        return [] if obj.dtype.kind in "fiub" else [f"{type(obj).__name__} of dtype {obj.dtype}"]
    if isinstance(obj, pd.DataFrame):
        return [f"{c}:{d}" for c, d in obj.dtypes.items() if not (pd.api.types.is_numeric_dtype(d) or pd.api.types.is_bool_dtype(d))]
    return []


def judge(case) -> Outcome:
    import pandas as pd
    import pyarrow as pa
    from formulaic import model_matrix

    out = Outcome()
    dtype, mat, output, usage = case["dtype"], case["mat"], case["output"], case["usage"]
    out.sig = (dtype, mat, output, usage, len(case["levels"]), tuple(case["levels"]) == tuple(sorted(case["levels"])))
    with_null = usage == "nulls"
    is_num = dtype in NUM_DTYPES
    if dtype == "category_bool" and mat == "arrow":  # (what a dictionary of booleans becomes on the way through arrow/narwhals is third-party behaviour)
        out.decided = False
        return out
    # a text column may start with any number of missing entries (libraries that sniff the leading values see no text there)
    prefix = 0 if is_num or usage == "two" else case.get("null_prefix", 100 if usage == "late" else 0)
    vals = [None] * prefix + list(case["vals"])
    if with_null and not is_num:
        if len(vals) < prefix + 2:
            out.decided = False
            return out
        vals[prefix + 1] = None
    n = len(vals)
    out.sig = out.sig + (prefix,)
    if is_num and usage == "wrapped":  # C() makes numeric data categorical by construction: not this property's pass-through case
        out.decided = False
        out.sig = None
        return out
    try:
        if is_num:
            col = make_num(dtype, n, with_null, big=usage == "alone_big")
        else:
            col = make_col(dtype, vals, case["levels"], False)
        num = np.arange(1, n + 1, dtype=float) / 2
        data = {"V": col, "num": num}
        if usage == "two":
            data["W"] = np.array((list(vals[1:]) + [vals[0]]), dtype=object)
        df = pd.DataFrame(data)
    except Exception:  # noqa: BLE001  (this pandas/pyarrow cannot build the column)
        out.decided = False
        return out
    src = df
    kw = {}
    if mat == "narwhals":
        kw["materializer"] = "narwhals"
    elif mat == "dict":  # a plain mapping of name -> column (the columns keep whatever dtype they were given)
        src = {k: (df[k].array if hasattr(df[k], "array") and not isinstance(col, np.ndarray) else data[k]) for k in data}
        src["V"] = col  # (no materializer named: plain mappings are dispatched to the pandas materializer)
    elif mat == "arrow":
        try:
            src = pa.Table.from_pandas(df, preserve_index=False)
        except Exception:  # noqa: BLE001
            out.decided = False
            return out
    f = {"alone_big": "0 + V", "alone": "0 + V", "interaction": "0 + V:num", "nulls": "0 + V", "two": "0 + V + W", "wrapped": "0 + C(V)", "late": "0 + V"}[usage]
    tag = f"dtype={dtype} mat={mat} out={output} usage={usage} levels={case['levels']}"
    try:
        with quiet():
            mm = model_matrix(f, src, output=output, context={}, **kw)
    except Exception as e:  # noqa: BLE001
        out.fail("c08.materialization_raised", f"{tag}: {type(e).__name__}: {str(e)[:200]}")
        return out
    try:
        M = dense(mm)
    except TypeError as e:
        out.fail("c08.non_numeric_cell", f"{tag}: {e}; columns {colnames(mm)}")
        return out
    names = colnames(mm)
    bad = non_numeric_parts(mm)
    if bad:
        out.fail("c08.non_numeric_matrix", f"{tag}: the matrix is not held in a number type ({bad[:3]})")
        return out
    if not is_num:
        bad = boolean_parts(mm)
        if bad:  # indicator columns are numbers (0/1), not truth values: X.T @ X must be arithmetic
            out.fail("c08.boolean_cells", f"{tag}: indicator columns come back as truth values ({bad}), not numbers")
            return out
    if usage == "alone_big":  # passes through unchanged: cell by cell the same whole numbers (no detour through doubles)
        obj = getattr(mm, "__wrapped__", mm)
        import scipy.sparse as sp_

        cells = obj.iloc[:, 0].tolist() if isinstance(obj, pd.DataFrame) else (obj.toarray() if sp_.issparse(obj) else np.asarray(obj))[:, 0].tolist()
        if names != ["V"] or [int(c) for c in cells] != BIG[:n]:
            out.fail("c08.numeric_values", f"{tag}: whole numbers {BIG[:n]} came back as {cells[:8]} (columns {names})")
        out.see("big_integers_checked")
        return out
    if is_num:
        keep = [i for i in range(n) if not (with_null and i == 1 and dtype in ("Int64", "Float64", "boolean", "float16", "float32", "float64", "arrow_int64", "arrow_float64"))]
    else:
        keep = [i for i in range(n) if vals[i] is not None]
    if is_num:
        expv = np.array([float(x) if x is not None and x is not pd.NA else np.nan for x in list(col)], dtype=float)[keep]
        exp_names = ["V"] if usage != "interaction" else ["V:num"]
        if usage == "interaction":
            expv = expv * num[keep]
        if usage == "two":
            exp_names = None
        if exp_names is not None and names != exp_names:
            out.fail("c08.numeric_not_passed_through", f"{tag}: columns {names}, expected {exp_names} (a numeric column must pass through unchanged)")
            return out
        if M.shape[0] != len(keep) or not np.allclose(M[:, 0], expv):
            out.fail("c08.numeric_values", f"{tag}: column values {M[:, 0].tolist()} expected {expv.tolist()}")
        return out
    # text / categorical
    observed = sorted({v for v in vals if v is not None}, key=str)
    if dtype.startswith("category") and mat != "arrow":
        levels = sorted(case["levels"]) if dtype in ("category", "category_ordered") else list(case["levels"])
        if dtype == "category_unused":
            levels = list(case["levels"]) + ["zz_unused"]
        if dtype == "category_int":
            m = {lv: i * 10 for i, lv in enumerate(case["levels"])}
            levels = [m[lv] for lv in case["levels"]]
            vals = [None if v is None else m[v] for v in vals]
        if dtype == "category_bool":
            levels = [True, False]
            vals = [None if v is None else (v == case["levels"][0]) for v in vals]
    else:
        levels = observed
        if dtype == "category_int":
            m = {lv: i * 10 for i, lv in enumerate(case["levels"])}
            vals = [None if v is None else m[v] for v in vals]
            levels = sorted({v for v in vals if v is not None})
    exp_names = [f"V[{lv}]" for lv in levels] if usage != "wrapped" else [f"C(V)[{lv}]" for lv in levels]
    ind = np.array([[1.0 if vals[i] == lv else 0.0 for lv in levels] for i in keep]).reshape(len(keep), len(levels))
    if usage == "interaction":
        exp_names = [f"{nm}:num" for nm in exp_names]
        ind = ind * num[keep][:, None]
    if usage == "two":
        got_v = [nm for nm in names if nm.startswith("V[")]
        if got_v != exp_names:
            out.fail("c08.levels", f"{tag}: V columns {got_v} expected {exp_names}")
        return out
    if names != exp_names:
        out.fail("c08.levels", f"{tag}: columns {names}; expected indicator columns {exp_names} ({'declared' if dtype.startswith('category') and mat != 'arrow' else 'sorted'} level order)")
        return out
    if M.shape != ind.shape or not np.allclose(M, ind):
        out.fail("c08.indicator_values", f"{tag}: values {M[:3].tolist()} expected {ind[:3].tolist()}")
    return out


# ------------------------------------------------------------------ single records (a mapping of scalars)


def enum_records(tier: str):
    for extra in ({}, {"A": "y"}, {"b": True}, {"A": "y", "b": False}, {"A": "y", "B": "k", "b": True}):
        for nums in ({"a": 2.5, "i": 7}, {"a": -1.0, "i": 0}, {"a": 3, "i": 2 ** 40}):
            for output in ("pandas", "numpy", "sparse"):
                yield {"record": {**extra, **nums}, "output": output}


def judge_record(case) -> Outcome:
    from formulaic import model_matrix

    out = Outcome()
    rec = case["record"]
    out.sig = (tuple(sorted((k, type(v).__name__) for k, v in rec.items())), case["output"])
    tag = f"record {rec} out={case['output']}"
    try:
        with quiet():
            mm = model_matrix("0 + a + i", dict(rec), output=case["output"], context={})
        M, names = dense(mm), colnames(mm)
        if names != ["a", "i"] or M.shape != (1, 2) or not np.allclose(M[0], [float(rec["a"]), float(rec["i"])]):
            out.fail("c08.numeric_not_passed_through", f"{tag}: '0 + a + i' gives columns {names} values {M.tolist()} (the numbers of a record pass through unchanged)")
        if "A" in rec:
            with quiet():
                mt = model_matrix("0 + A + a", dict(rec), output=case["output"], context={})
            if colnames(mt) != [f"A[{rec['A']}]", "a"] or not np.allclose(dense(mt)[0], [1.0, float(rec["a"])]):
                out.fail("c08.levels", f"{tag}: '0 + A + a' gives columns {colnames(mt)} values {dense(mt).tolist()}")
    except Exception as e:  # noqa: BLE001
        out.fail("c08.materialization_raised", f"{tag}: {type(e).__name__}: {str(e)[:200]}")
    return out


PINNED = []
SUBS = {
    "records": Sub(judge=judge_record, enum=enum_records, min_decided=40),
    "grid": Sub(judge=judge, enum=enum_grid, min_decided=600),
    "random_levels": Sub(judge=judge, gen=gen_random, quick=6000, thorough=100_000, min_decided=300),
}
