"""C04 - a model spec replays the recorded encoding row by row on any data."""

from __future__ import annotations

import pickle
import random

import numpy as np

from ..core import Outcome, Sub
from ..data import colnames, dense, make_frame, nrows, quiet, same, take_rows

ID = "C04"
DESIGN_REF = "DESIGN.md section 4 / C04"
TECHNIQUE = "runtime monitoring: replay-history monitor - fit once, then a random sequence of follow-up frames (subsets, duplications, permutations, single rows, lost levels, pickled spec, model_matrix(spec|matrix, data)); oracle is row-locality M(spec, D[rows]) == M_fit[rows]"
LEVEL_TEXT = (
    "For random formulas over every stateful and stateless built-in transform (nested, repeated, in interactions) the real code "
    "fits a matrix and the attached spec is then replayed on a random history of follow-up frames drawn from the training rows; "
    "each replay must give the same column names and exactly the training rows' values (row-locality), also through a pickled "
    "spec and through model_matrix(spec, data) / model_matrix(matrix, data). Formulas may be multi-part (parts sharing factors; each part's own "
    "spec is also replayed alone), columns may need quoting (two names that sanitize alike, next to a plain column of that name that "
    "comes and goes between fit and follow-up), transforms may be reached through an object in the caller's context. Held-on-observed."
)
LEVEL_NOTE = "trusts: numpy allclose (rtol 1e-9); pickle"
RULE = (
    "random formulas (1-4 terms; numeric encodings: bare, center, scale(+flags), standardize, poly, bs(df|knots, degree 0-5, "
    "include_intercept, bounds, extrapolation), cr/cs/cc(df|knots, constraints), nested and repeated stateful calls, log/exp/I/{}, "
    "Q(); categorical encodings: bare, C(+contrasts, levels=), hashed) x training frame x 4-6 follow-ups of kinds same/subset/dup/"
    "perm/single/lost-levels/pickle/via-function; distinct = (sorted transform kinds with options abstracted, interaction shape, "
    "follow-up kinds, output)"
)
ASSUMPTIONS = ["lag() excluded (defined across rows); follow-up rows are training rows so that raise-mode splines stay in range"]

NUM = ["x", "y", "p", "body mass", "body+mass"]
CAT = ["A", "B", "S", "K", "ward:bed"]  # K: an object column of keys that compare equal across types (1, 1.0, True) or are missing


def tnum(rng, v):
    if not v.isidentifier():  # a column that can only be referenced through backticks
        q = f"`{v}`"
        return rng.choice([(q, "bare_q"), (f"center({q})", "center_q"), (f"scale({q})", "scale_q"), (f"poly({q}, 2)", "poly_q"),
                           (f"bs({q}, df=4)", "bs_q"), (f"{{center({q}) + 1}}", "py_q"), (f"I(center({q}) ** 2)", "nested_q")])
    pos = v == "p"
    opts = [
        (v, "bare"), (f"center({v})", "center"), (f"scale({v})", "scale"), (f"scale({v}, ddof=0)", "scale"), (f"scale({v}, center=False)", "scale"),
        (f"scale({v}, scale=False)", "scale"), (f"standardize({v})", "standardize"), (f"poly({v}, {rng.randint(1, 4)})", "poly"),
        (f"poly({v}, 2, raw=True)", "polyraw"), (f"bs({v}, df={rng.randint(3, 7)})", "bs"),
        (f"bs({v}, df={rng.randint(4, 7)}, degree={rng.randint(0, 3)}, include_intercept={rng.choice([True, False])})", "bs"),
        (f"bs({v}, degree={rng.randint(1, 5)})", "bs"), (f"bs({v}, df=5, extrapolation='clip')", "bs"), (f"bs({v}, df=4, extrapolation='extend')", "bs"),
        (f"cr({v}, df={rng.randint(3, 6)})", "cr"), (f"cr({v}, df=4, constraints='center')", "cr"), (f"cs({v}, df={rng.randint(3, 5)})", "cr"),
        (f"cc({v}, df={rng.randint(3, 6)})", "cc"), (f"cc({v}, df=4, constraints='center')", "cc"),
        (f"scale(center({v}))", "nested"), (f"center(scale({v}))", "nested"), (f"{{center({v}) * center({v})}}", "repeated"),
        (f"{{scale({v}) + {v}}}", "mixed"), (f"{{center({v}) + scale({v}) * center({v})}}", "repeated"), (f"I({v}**2)", "I"), (f"exp({v} / 100)", "exp"),
        (f"{{{v} + 1}}", "py"), (f"Q('{v}')", "Q"), (f"poly(center({v}), 2)", "nested"), (f"bs(scale({v}), df=4)", "nested"),
        # stateful transforms applied to multi-column (dict-valued) results keep one state per column
        (f"center(bs({v}, df=4))", "perkey"), (f"scale(bs({v}, df=3))", "perkey"), (f"scale(poly({v}, 2))", "perkey"),
        (f"center(cr({v}, df=3))", "perkey"), (f"scale(cc({v}, df=3), ddof=0)", "perkey"),
        # the same transforms reached through an object in the caller's context (module-style access)
        (f"ft.center({v})", "attr"), (f"ft.scale({v})", "attr"), (f"ft.poly({v}, 2)", "attr"), (f"ft.bs({v}, df=4)", "attr"),
        (f"ft.scale(ft.center({v}))", "attr"), (f"{{ft.center({v}) * 2}}", "attr"),
    ]
    if pos:
        opts += [(f"log({v})", "log"), (f"log10({v})", "log"), (f"exp10({v})", "exp"), (f"scale(log({v}))", "nested")]
    return rng.choice(opts)


def tcat(rng, v, levels):
    if not v.isidentifier():  # a text column whose name holds a ':' (only referable through backticks)
        q = f"`{v}`"
        return rng.choice([(q, "bare_qc"), (f"C({q})", "C_qc"), (f"C({q}, contr.sum)", "Csum_qc"), (f"C({q}, contr.treatment(base='{levels[-1]}'))", "Cbase_qc")])
    if v == "K":
        return rng.choice([(f"hashed(K, levels={k})", "hashed_mixed") for k in (3, 5, 11)])
    opts = [
        (v, "bare"), (f"C({v})", "C"), (f"C({v}, contr.sum)", "Csum"), (f"C({v}, contr.helmert)", "Chelmert"), (f"C({v}, contr.diff)", "Cdiff"),
        (f"C({v}, contr.poly)", "Cpoly"), (f"C({v}, contr.SAS)", "CSAS"), (f"hashed({v}, levels=5)", "hashed"),
        (f"C({v}, contr.treatment(base='{rng.choice(levels)}'))", "Cbase"), (f"C({v}, levels={rng.sample(levels, len(levels))!r})", "Clevels"),
        (f"C({v}, contr.helmert(scale=True, reverse=False))", "Chelmert"),
    ]
    return rng.choice(opts)


def gen_case(rng: random.Random, tier: str) -> dict:
    n = rng.randint(12, 40)
    lvA, lvB, lvS = ["u", "v", "w"], ["k", "l"], ["s1", "s2", "s3", "s4"]

    def catvals(levels):
        vals = levels + [rng.choice(levels) for _ in range(n - len(levels))]
        rng.shuffle(vals)
        return vals

    frame = {"cols": [
        ["x", {"kind": "num", "dtype": "float64", "values": [round(rng.gauss(0, 1), 6) for _ in range(n)]}],
        ["y", {"kind": "num", "dtype": "float64", "values": [round(rng.gauss(50, 100), 4) for _ in range(n)]}],
        ["p", {"kind": "num", "dtype": "float64", "values": [round(rng.uniform(0.5, 3), 6) for _ in range(n)]}],
        ["body mass", {"kind": "num", "dtype": "float64", "values": [round(rng.gauss(70, 12), 3) for _ in range(n)]}],
        # sanitizes to the same Python identifier as "body mass"
        ["body+mass", {"kind": "num", "dtype": "float64", "values": [round(rng.gauss(-5, 3), 3) for _ in range(n)]}],
        ["A", {"kind": "cat", "categories": lvA, "values": catvals(lvA)}],
        ["B", {"kind": "cat", "categories": rng.sample(lvB, 2), "values": catvals(lvB)}],
        ["S", {"kind": "text", "dtype": rng.choice(["object", "str"]), "values": catvals(lvS)}],
        ["ward:bed", {"kind": "text", "dtype": "object", "values": catvals(["w1:b1", "w1:b2", "w2:b1"])}],
        ["K", {"kind": "mixed", "values": [rng.choice([1, 1.0, True, "1", 7, 7.0, "k", None, 0, False, 0.0]) for _ in range(n)]}],
    ], "index": None}
    # a plain column whose name is what the quoted names sanitize to: present at fit time, in follow-ups, both or neither
    plain = rng.choice(["never", "never", "fit", "follow", "both"])
    if plain in ("fit", "both"):
        frame["cols"].append(["body_mass", {"kind": "num", "dtype": "float64", "values": [round(rng.gauss(1, 1), 3) for _ in range(n)]}])
    levels = {"A": lvA, "B": lvB, "S": lvS, "K": [], "ward:bed": ["w1:b1", "w1:b2", "w2:b1"]}
    enc, kinds = {}, {}
    for v in NUM:
        enc[v], kinds[v] = tnum(rng, v)
    for v in CAT:
        enc[v], kinds[v] = tcat(rng, v, levels[v])
    vars_ = rng.sample(NUM + CAT, rng.randint(1, 4))
    terms = []
    for _ in range(rng.randint(1, 4)):
        terms.append(rng.sample(vars_, rng.randint(1, min(3, len(vars_)))))
    def tstr(t):
        parts = [enc[v] for v in t]
        if rng.random() < 0.2:
            parts.insert(rng.randint(0, len(parts)), rng.choice(["2", "2.5", "0.5", "3"]))
        return ":".join(parts)

    extra_terms = []
    if rng.random() < 0.35:  # the same column under a second, different encoding in the same formula
        v = rng.choice([u for u in vars_ if u in NUM] or [NUM[0]])
        for _ in range(10):
            alt, _k = tnum(rng, v)
            if alt != enc.get(v):
                extra_terms.append(alt)
                break
    seen, uniq = set(), []
    for t in terms:
        if frozenset(t) not in seen:
            seen.add(frozenset(t))
            uniq.append(t)
    terms = uniq
    f = " + ".join([rng.choice(["1", "0"])] + [tstr(t) for t in terms] + extra_terms)
    if rng.random() < 0.3:  # several parts drawing on the same encoded factors
        more = []
        for _ in range(rng.randint(1, 2)):
            ts = [rng.sample(vars_, rng.randint(1, min(2, len(vars_)))) for _ in range(rng.randint(1, 2))]
            more.append(" + ".join([rng.choice(["1", "0"])] + list(dict.fromkeys(":".join(enc[v] for v in t) for t in ts))))
        f = " | ".join([f] + more)
        if rng.random() < 0.4:
            f = f"{enc[rng.choice(vars_)]} ~ {f}"
    follow = []
    for _ in range(rng.randint(4, 6)):
        kind = rng.choice(["same", "subset", "dup", "perm", "single", "lost_levels", "pickle", "pickle", "deepcopy", "via_function", "via_matrix", "recat", "recat", "part_alone", "part_alone", "empty"])
        if kind == "empty":  # an empty selection of rows is a selection too: zero rows, the recorded columns
            rows = []
        elif kind == "same":
            rows = list(range(n))
        elif kind == "dup":
            rows = [rng.randrange(n) for _ in range(rng.randint(1, 2 * n))]
        elif kind == "perm":
            rows = rng.sample(range(n), n)
        elif kind == "single":
            rows = [rng.randrange(n)]
        elif kind == "lost_levels":
            keep = rng.choice(lvA)
            rows = [i for i in range(n) if dict((k, v) for k, v in frame["cols"])["A"]["values"][i] == keep] or [0]
        else:
            rows = sorted(rng.sample(range(n), rng.randint(1, n)))
        follow.append({"kind": kind, "rows": rows, "plain_col": plain == "both" or (plain == "fit" and rng.random() < 0.5) or (plain == "follow" and rng.random() < 0.7)})
    used = sorted({kinds[v] for t in terms for v in t})
    # the quoted columns may be capitalised or non-ASCII (aliases and state keys must not depend on the spelling's character class)
    style = rng.choice(["lower", "lower", "capital", "unicode"])
    plain_name = "body_mass"
    if style != "lower":
        ren = {"capital": {"body mass": "Body Mass", "body+mass": "Body+Mass", "body_mass": "Body_Mass"},
               "unicode": {"body mass": "Größe cm", "body+mass": "Größe+cm", "body_mass": "Größe_cm"}}[style]
        for c in frame["cols"]:
            c[0] = ren.get(c[0], c[0])
        for old_, new_ in ren.items():
            f = f.replace(old_, new_)
        plain_name = ren["body_mass"]
    return {"prelude": rng.random() < 0.2, "plain_name": plain_name, "frame": frame, "formula": f, "output": rng.choice(["pandas", "numpy", "sparse"]), "follow": follow,
            "sig": [used, sorted(len(t) for t in terms), f.count("|") + 2 * f.count("~"), plain]}


def make_ctx():
    import types

    from formulaic.transforms import TRANSFORMS

    return {"ft": types.SimpleNamespace(**{k: TRANSFORMS[k] for k in ("center", "scale", "poly", "bs")}), "tools": {"center": TRANSFORMS["center"]}}


def judge(case) -> Outcome:
    from formulaic import model_matrix

    CTX = make_ctx()

    out = Outcome()
    out.sig = (tuple(case["sig"][0]), tuple(case["sig"][1]), tuple(case["sig"][2:]), tuple(sorted({f["kind"] for f in case["follow"]})), case["output"])
    df = make_frame(case["frame"])
    f = case["formula"]
    tag = f"{f!r} output={case['output']}"
    with quiet():
        if case.get("prelude"):
            # an earlier, unrelated build of the same process whose context shadows the built-in transforms with plain functions
            # of the same names (context names legitimately hide transforms): it must leave no trace in later builds
            import types

            def plain(v, *a, **k):
                return np.arange(len(v), dtype=float)

            names_ = ("center", "scale", "standardize", "poly", "bs", "cr", "cs", "cc", "hashed", "C", "log", "exp")
            shadow = {nm: plain for nm in names_}
            shadow["ft"] = types.SimpleNamespace(**{nm: plain for nm in names_})
            try:
                model_matrix(" + ".join(f"{nm}(x)" for nm in names_) + " + ft.center(x) + ft.scale(x) + ft.poly(x) + ft.bs(x) + {center(x) + 1}",
                             df, context=shadow)
                out.see("prelude_run")
            except Exception as e:  # noqa: BLE001
                out.see("prelude_failed:" + type(e).__name__)
        try:
            mm = model_matrix(f, df, output=case["output"], context=CTX)
        except Exception as e:  # noqa: BLE001
            msg = str(e)
            from .c12 import VALIDATION_PHRASES

            if ("ValueError" in msg or isinstance(e, ValueError)) and any(p in msg for p in VALIDATION_PHRASES):
                out.decided = False  # parameter combination a transform documents as invalid for this data (e.g. df too small)
                out.see("fit_rejected")
                return out
            out.fail("c04.fit_raised", f"{tag}: {type(e).__name__}: {msg[:200]}")
            return out
        parts = list(mm._flatten()) if hasattr(mm, "_flatten") else [mm]
        M0s = [dense(p) for p in parts]
        spec = mm.model_spec
        names = [colnames(p) for p in parts]
        if not all(np.isfinite(M0).all() for M0 in M0s):
            out.decided = False
            return out
        for step, fu in enumerate(case["follow"]):
            rows, kind = fu["rows"], fu["kind"]
            subspec = take_rows(case["frame"], rows)
            if kind == "recat":  # same categories, declared in another order: the recorded level order must still be used
                for _nm, c in subspec["cols"]:
                    if c["kind"] == "cat":
                        c["categories"] = list(reversed(c["categories"]))
            plain_name = case.get("plain_name", "body_mass")
            has_plain = any(nm == plain_name for nm, _c in subspec["cols"])
            if fu.get("plain_col", has_plain) != has_plain:  # an unrelated column appears in / disappears from the follow-up data
                if has_plain:
                    subspec["cols"] = [c for c in subspec["cols"] if c[0] != plain_name]
                else:
                    subspec["cols"].append([plain_name, {"kind": "num", "dtype": "float64", "values": [float(i) for i in range(len(rows))]}])
            sub = make_frame(subspec)
            sp = spec
            try:
                if kind == "pickle":
                    sp = pickle.loads(pickle.dumps(spec))
                    m2 = sp.get_model_matrix(sub, context=CTX)
                elif kind == "deepcopy":
                    import copy

                    m2 = copy.deepcopy(spec).get_model_matrix(sub, context=CTX)
                elif kind == "via_function":
                    m2 = model_matrix(spec, sub, context=CTX)
                elif kind == "via_matrix":
                    m2 = model_matrix(mm, sub, context=CTX)
                elif kind == "part_alone":  # each part's own spec, used by itself
                    m2 = [p.model_spec.get_model_matrix(sub, context=CTX) for p in parts]
                else:
                    m2 = sp.get_model_matrix(sub, context=CTX)
            except Exception as e:  # noqa: BLE001
                out.fail("c04.replay_raised", f"{tag} step {step} [{kind}] rows={rows[:6]}: {type(e).__name__}: {str(e)[:200]}")
                return out
            parts2 = m2 if isinstance(m2, list) else list(m2._flatten()) if hasattr(m2, "_flatten") else [m2]
            if len(parts2) != len(parts):
                out.fail("c04.replay_shape", f"{tag} [{kind}]: {len(parts2)} parts replayed, {len(parts)} fitted")
                return out
            for k, (p2, M0, nm) in enumerate(zip(parts2, M0s, names)):
                n2 = colnames(p2)
                if n2 != nm:
                    out.fail("c04.replay_names", f"{tag} [{kind}] part {k}: names {n2} != fit names {nm}")
                    return out
                M2 = dense(p2)
                if M2.shape != (len(rows), len(nm)) or not same(M2, M0[rows]):
                    bad = np.argwhere(~np.isclose(M2, M0[rows], rtol=1e-9, atol=1e-9)) if M2.shape == M0[rows].shape else []
                    where = f"row {rows[bad[0][0]]} col {nm[bad[0][1]]!r}: {M2[bad[0][0], bad[0][1]]!r} vs {M0[rows][bad[0][0], bad[0][1]]!r}" if len(bad) else f"shape {M2.shape}"
                    out.fail("c04.replay_values", f"{tag} step {step} [{kind}] part {k} plain_col={fu.get('plain_col')} rows={rows[:6]}..: replay differs from the fitted rows ({where})")
                    return out
            out.see("replays_checked")
            out.see(f"kind.{kind}")
            if len(parts) > 1:
                out.see("structured_replays")
    return out


def _frame():
    return {"cols": [["x", {"kind": "num", "dtype": "float64", "values": [1.0, 2.0, 3.0, 10.0, -4.0, 0.5]}],
                     ["A", {"kind": "cat", "categories": ["u", "v"], "values": ["u", "v", "u", "v", "v", "u"]}]], "index": None}


PINNED = [
    ("replay", {"frame": _frame(), "formula": "0 + {center(x) * center(x)}", "output": "pandas", "follow": [{"kind": "subset", "rows": [0, 1]}], "sig": [["repeated"], [1]]}),
]
SUBS = {"replay": Sub(judge=judge, gen=gen_case, quick=1600, thorough=60_000, min_decided=150)}
