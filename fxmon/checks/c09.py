"""C09 - reusing a spec on incompatible data fails loudly and never reshapes columns."""

from __future__ import annotations

import random

import numpy as np

from ..core import Outcome, Sub
from ..data import colnames, dense, make_frame, quiet

ID = "C09"
DESIGN_REF = "DESIGN.md section 4 / C09"
TECHNIQUE = "runtime monitoring: history monitor over (fit data, follow-up data) pairs - exception type, warnings and columns observed at the spec-reuse boundary against the generator's knowledge of what changed (kind flip / lost levels / unseen levels)"
LEVEL_TEXT = (
    "Random formulas over numeric and categorical columns (category/object/str dtypes, bare or C()-wrapped, alone and in "
    "interactions) are fitted by the real code, then the spec is reused on follow-up data in which one used column flips kind, "
    "loses levels or gains unseen levels (optionally together with nulls under the ignore policy). A kind flip must raise "
    "FactorEncodingError; lost levels must keep their all-zero columns; unseen levels must keep names/order/count, zero the "
    "affected rows in that factor's columns and be announced by a DataMismatchWarning. Held-on-observed."
)
LEVEL_NOTE = "trusts: the generator's record of which column was changed and how; warnings.catch_warnings"
RULE = (
    "random (dtype per categorical in {category, object, str}, C() wrapping, 1-3 terms of order 1-3, intercept, output, policy) x "
    "scenario in {flip cat->num, flip num->cat, lost levels, unseen levels, unseen+null, unchanged}; distinct = (scenario, target "
    "dtype, wrapped, term shape, output, policy)"
)
ASSUMPTIONS = ["a factor written C(v) is categorical by construction: numeric follow-up data under C() is re-coded, not a kind flip (excluded from the flip class)"]

L = {"A": list("uvw"), "B": list("kl"), "S": ["s1", "s2", "s3", "s4"]}


def catspec(vals, dtype, levels):
    if dtype == "category":
        return {"kind": "cat", "categories": levels, "values": vals}
    return {"kind": "text", "dtype": dtype, "values": vals}


def gen_case(rng: random.Random, tier: str) -> dict:
    n = 20
    dts = {v: rng.choice(["category", "object", "str"]) for v in L}
    cols = [["x", {"kind": "num", "dtype": "float64", "values": [round(rng.gauss(0, 1), 5) for _ in range(n)]}],
            ["y", {"kind": "num", "dtype": "float64", "values": [round(rng.gauss(0, 1), 5) for _ in range(n)]}]]
    for v, levels in L.items():
        vals = [rng.choice(levels) for _ in range(n)]
        for i, lv in enumerate(levels):
            vals[i] = lv
        cols.append([v, catspec(vals, dts[v], levels)])
    vars_ = rng.sample(["x", "y", "A", "B", "S"], rng.randint(1, 4))
    wrap = {v: (rng.random() < 0.3 and v in L) for v in vars_}

    # (levels=lv_<v>: the level list comes from a context variable, which may evaluate differently when the spec is reused)
    cwrap = {v: rng.choice(["C({v})", "C({v})", "C({v}, contr.sum)", "C({v}, contr.poly)", "C({v}, contr.helmert)", "C({v}, levels=lv_{v})",
                            "C({v}, contr.sum, levels=lv_{v})",
                            # a caller's transform that returns a mapping of categorical sub-columns (each keeps its own recorded levels)
                            "mcat({v})"]) for v in vars_}

    def nm(v):
        return cwrap[v].format(v=v) if wrap[v] else v

    terms = [[nm(v) for v in rng.sample(vars_, rng.randint(1, min(3, len(vars_))))] for _ in range(rng.randint(1, 3))]
    used = [v for v in vars_ if any(nm(v) in t for t in terms)]
    f = " + ".join([rng.choice(["1", "0"])] + [":".join(t) for t in terms])
    scen = rng.choice(["flip", "flip", "lost", "new", "new_null", "ok", "permuted", "permuted"])
    m = 8
    target = rng.choice(used)
    change = None
    if scen == "flip":
        if target in L:
            if wrap[target]:
                scen = "ok"
            else:
                # any numerical dtype (floats, integers, booleans) is a change of kind for a factor recorded as categorical
                change = rng.choice([
                    {"kind": "num", "dtype": "float64", "values": [round(rng.gauss(0, 1), 5) for _ in range(m)]},
                    {"kind": "num", "dtype": rng.choice(["int64", "Int64", "uint8", "float32"]), "values": [float(rng.randint(0, 3)) for _ in range(m)]},
                    {"kind": "bool", "dtype": rng.choice(["bool", "boolean"]), "values": [rng.random() < 0.5 for _ in range(m)]},
                    # (a column of the other kind is of the other kind whether or not it holds any observation)
                    {"kind": "num", "dtype": "float64", "values": [None] * m},
                ])
        else:
            change = catspec([rng.choice("pq") for _ in range(m)], rng.choice(["category", "object", "str"]), ["p", "q"])
            if rng.random() < 0.2:
                change = catspec([None] * m, rng.choice(["category", "object"]), ["p", "q"])
    elif scen in ("lost", "new", "new_null"):
        cats = [v for v in used if v in L]
        if not cats:
            scen = "ok"
        else:
            target = rng.choice(cats)
            if scen == "lost":
                vals = [L[target][0]] * m
                lv = [L[target][0]] if rng.random() < 0.5 else L[target]
            else:
                vals = [rng.choice(L[target] + ["ZZ"]) for _ in range(m)]
                vals[0] = "ZZ"
                if scen == "new_null":
                    vals[1] = None
                lv = sorted(set(v for v in vals if v is not None))
            change = catspec(vals, dts[target], lv)
    if scen == "permuted":  # same level set, declared in another order (or as plain text): columns must not move
        cats = [v for v in used if v in L]
        if not cats:
            scen = "ok"
        else:
            target = rng.choice(cats)
            vals = [rng.choice(L[target]) for _ in range(m)]
            perm = list(reversed(L[target])) if rng.random() < 0.6 else rng.sample(L[target], len(L[target]))
            change = {"kind": "cat", "categories": perm, "values": vals, "ordered": rng.random() < 0.2}
    na = "ignore" if scen == "new_null" else rng.choice(["drop", "drop", "ignore"])
    return {"cols": cols, "formula": f, "output": rng.choice(["pandas", "numpy", "sparse"]), "scen": scen, "target": target,
            "label": nm(target), "change": change, "na": na, "wrapped": wrap.get(target, False), "tdtype": dts.get(target, "num"),
            "shape": sorted(len(t) for t in terms), "structured": rng.choice([None, None, None, "second", "first"]),
            "lv_reuse": rng.choice(["same", "shorter", "reordered"]), "gen2": rng.choice([None, None, "plain", "pickle", "deepcopy"]), "kind_as": rng.choice(["enum", "enum", "value"])}


def judge(case) -> Outcome:
    from formulaic import model_matrix
    from formulaic.errors import DataMismatchWarning, FactorEncodingError

    out = Outcome()
    scen, target = case["scen"], case["target"]
    out.sig = (scen, case["tdtype"], case["wrapped"], tuple(case["shape"]), case["output"], case["na"], case.get("structured"))
    df = make_frame({"cols": case["cols"], "index": None})
    f = case["formula"]
    tag = f"{f!r} scenario={scen} target={target} dtype={case['tdtype']} out={case['output']} na={case['na']} part={case.get('structured')}"
    def mcat(values):
        from formulaic.materializers.types import FactorValues

        return FactorValues({"p": values}, kind="categorical")

    ctx_fit = {f"lv_{v}": list(lv) for v, lv in L.items()}
    how = case.get("lv_reuse", "same")
    ctx_reuse = {k: (v[:-1] if how == "shorter" else list(reversed(v)) if how == "reordered" else list(v)) for k, v in ctx_fit.items()}
    ctx_fit["mcat"] = ctx_reuse["mcat"] = mcat
    with quiet():
        try:
            if case.get("structured"):  # the formula is one part of a multi-part formula whose other part uses the same factors;
                # its own spec is what gets reused afterwards
                whole = model_matrix(f"{f} | {f}" if case["structured"] == "second" else f"{f} | x", df, output=case["output"], na_action=case["na"], context=ctx_fit)
                mm = whole[1] if case["structured"] == "second" else whole[0]
            else:
                mm = model_matrix(f, df, output=case["output"], na_action=case["na"], context=ctx_fit)
        except Exception as e:  # noqa: BLE001
            out.fail("c09.fit_raised", f"{tag}: {type(e).__name__}: {str(e)[:200]}")
            return out
    spec = mm.model_spec
    if case.get("kind_as") == "value":  # the recorded kinds written by value ('categorical'), as in hand-written encoder state
        spec = spec.update(encoder_state={k: (getattr(v[0], "value", v[0]), v[1]) for k, v in spec.encoder_state.items()})
        out.see("kinds_by_value")
    names = colnames(mm)
    m = 8
    newcols = [[n, dict(c, values=c["values"][:m])] for n, c in case["cols"]]
    if case["change"] is not None:
        newcols = [[n, (case["change"] if n == target else c)] for n, c in newcols]
    new = make_frame({"cols": newcols, "index": None})
    exc = None
    with quiet() as q:
        try:
            m2 = spec.get_model_matrix(new, context=ctx_reuse)
        except Exception as e:  # noqa: BLE001
            exc = e
    warned = any(issubclass(w.category, DataMismatchWarning) for w in q.log)
    if scen == "flip":
        if isinstance(exc, FactorEncodingError):
            out.see("flip_raised")
        elif exc is None:
            out.fail("c09.kind_flip_silent", f"{tag}: follow-up column changed kind but a matrix with columns {colnames(m2)} was returned")
        else:
            out.fail("c09.kind_flip_wrong_error", f"{tag}: raised {type(exc).__name__}: {str(exc)[:150]} instead of FactorEncodingError")
        return out
    if exc is not None:
        out.fail("c09.reuse_raised", f"{tag}: {type(exc).__name__}: {str(exc)[:200]}")
        return out
    n2 = colnames(m2)
    M2 = dense(m2)
    if n2 != names or M2.shape[1] != len(names):
        out.fail("c09.columns_reshaped", f"{tag}: columns {n2} != fit columns {names}")
        return out
    label = case["label"]
    gen2 = case.get("gen2")
    if gen2:  # the spec attached to the follow-up matrix (second generation) behaves like the one it came from
        import copy
        import pickle

        spec2 = m2.model_spec
        spec2 = {"plain": lambda s_: s_, "pickle": lambda s_: pickle.loads(pickle.dumps(s_)), "deepcopy": copy.deepcopy}[gen2](spec2)
        with quiet() as q2:
            try:
                m3 = spec2.get_model_matrix(new, context=ctx_reuse)
            except Exception as e:  # noqa: BLE001
                out.fail("c09.reuse_raised", f"{tag}: second-generation spec ({gen2}): {type(e).__name__}: {str(e)[:200]}")
                return out
        warned2 = any(issubclass(w.category, DataMismatchWarning) for w in q2.log)
        if colnames(m3) != names or not np.allclose(dense(m3), M2, equal_nan=True):
            out.fail("c09.columns_reshaped", f"{tag}: second-generation spec ({gen2}) gives columns {colnames(m3)} / other values than the first reuse")
            return out
        if warned and not warned2:
            out.fail("c09.unseen_level_no_warning", f"{tag}: the spec of the follow-up matrix ({gen2}) applied to the same data again issued no DataMismatchWarning; the first reuse did")
        out.see("second_generation_checked")
    if scen in ("new", "new_null"):
        if not warned:
            out.fail("c09.unseen_level_no_warning", f"{tag}: unseen level 'ZZ' in {target} but no DataMismatchWarning was issued")
        vals = case["change"]["values"]
        rows = [i for i in range(m) if vals[i] == "ZZ"]
        kept = list(range(m)) if M2.shape[0] == m else None
        cols = [j for j, nme in enumerate(names) if f"{label}[" in nme]
        if kept is not None and cols and not np.allclose(M2[np.ix_(rows, cols)], 0):
            out.fail("c09.unseen_level_nonzero", f"{tag}: rows with the unseen level are not all-zero in {label}'s columns")
        out.see("unseen_checked")
    elif scen == "lost":
        lost = L[target][1:]
        cols = [j for j, nme in enumerate(names) if any(f"{label}[{lv}]" in nme or f"{label}[T.{lv}]" in nme for lv in lost)]
        if cols and not np.allclose(M2[:, cols], 0):
            out.fail("c09.lost_level_nonzero", f"{tag}: columns of levels absent from the new data are not all-zero")
        if warned:
            out.see("warned_on_lost_levels")
        out.see("lost_checked")
    elif scen == "permuted":
        # reference: the same values supplied as plain text (no declared order at all)
        vals = case["change"]["values"]
        txt = [[n, ({"kind": "text", "dtype": "object", "values": vals} if n == target else c)] for n, c in newcols]
        with quiet():
            ref = spec.get_model_matrix(make_frame({"cols": txt, "index": None}), context=ctx_reuse)
        if warned:
            out.fail("c09.spurious_warning", f"{tag}: DataMismatchWarning although the level set is unchanged")
        if not np.allclose(M2, dense(ref), equal_nan=True):
            out.fail("c09.category_order_changes_encoding", f"{tag}: follow-up categorical with categories {case['change']['categories']} is encoded differently from the same values given as text (recorded level order must be used)")
        out.see("permuted_checked")
    else:
        if warned:
            out.fail("c09.spurious_warning", f"{tag}: DataMismatchWarning although nothing changed")
        if not np.allclose(M2, dense(mm)[:m], equal_nan=True):
            out.fail("c09.unchanged_values", f"{tag}: reuse on unchanged rows differs from the fit")
    return out


PINNED = [
    ("reuse", {"cols": [["A", {"kind": "cat", "categories": ["x", "y", "z"], "values": ["x", "y", "z", "x", "y", "z", "x", "y"]}],
                        ["x", {"kind": "num", "dtype": "float64", "values": [1.0, 2, 3, 4, 5, 6, 7, 8]}]],
               "formula": "1 + A", "output": "pandas", "scen": "flip", "target": "A", "label": "A",
               "change": {"kind": "num", "dtype": "float64", "values": [1.0, 2, 3, 4, 5, 6, 7, 8]}, "na": "drop", "wrapped": False, "tdtype": "category", "shape": [1]}),
]
SUBS = {"reuse": Sub(judge=judge, gen=gen_case, quick=6000, thorough=200_000, min_decided=500)}
