"""C17 - required variables, name resolution order and '.' expansion are exact."""

from __future__ import annotations

import collections
import random

import numpy as np

from ..core import Outcome, Sub
from ..data import colnames, dense, quiet

ID = "C17"
DESIGN_REF = "DESIGN.md section 4 / C17"
TECHNIQUE = "runtime monitoring: necessity/sufficiency monitor (materialize on data restricted to / lacking one of the reported variables) + layer-sentinel monitor (distinct sentinel values planted per layer reveal which layer a name resolved to) + wildcard expansion monitor"
LEVEL_TEXT = (
    "The generator knows which names of each formula are values and splits them into data columns and context names. The real "
    "required_variables (formula and spec) must equal that set; materializing on exactly those columns must succeed and reproduce "
    "the matrix; removing any one column must fail with FactorEvaluationError. In the layer monitor the same name is planted in "
    "data / context / built-ins with distinct sentinel values over a two-step history, the result reveals the layer used (must be "
    "data > context > transforms) and variables_by_source of *both* specs must name it afterwards. '.' must expand to the data "
    "columns not used on the left-hand side, in data order."
)
LEVEL_NOTE = "trusts: the generator's bookkeeping of names; sentinel values are distinct per layer"
RULE = (
    "required: 1-4 factors from 24 templates (plain, quoted, calls, nested calls, context values and callables, keyword names, Q(), "
    "attribute access, comprehension/lambda) in 1-3 terms, optional lhs; layers: random placement of 3 value names and 2 callable "
    "names over {data, context, built-in} in two consecutive materializations; dot: random column sets/orders, lhs subsets, extra "
    "terms; distinct = (template multiset, partition) / (placement pair) / (column count, lhs size, position of '.')"
)
ASSUMPTIONS = [
    "generated Python fragments are strict in every name they mention (no conditional expressions or short-circuit operators): a name in a branch that is never evaluated is legitimately not necessary",
]

N = 9


def ctxf(v):
    return v * 3


# (text, data vars, context value names, context callables, K4 tag)
TEMPL = [
    ("x", ["x"], [], [], None), ("y", ["y"], [], [], None),
    # data columns that share their name with a built-in transform, used as factors in their own right
    ("scale", ["scale"], [], [], None), ("C", ["C"], [], [], None), ("scale:center(x)", ["scale", "x"], [], [], None), ("A", ["A"], [], [], None), ("`x y`", ["x y"], [], [], None), ("`w+1`", ["w+1"], [], [], None),
    ("log(y)", ["y"], [], [], None), ("np.log(y)", ["y"], [], [], None), ("C(A)", ["A"], [], [], None), ("C(B, contr.sum)", ["B"], [], [], None),
    ("I(x*k)", ["x"], ["k"], [], None), ("{x + cv}", ["x"], ["cv"], [], None), ("ctxf(z)", ["z"], [], ["ctxf"], None), ("center(x)", ["x"], [], [], None),
    ("poly(z, 2)", ["z"], [], [], None), ("bs(y, df=3)", ["y"], [], [], None), ("I(`x y` + z)", ["x y", "z"], [], [], None),
    ("{`class` * 2}", ["class"], [], [], None), ("scale(z, center=k)", ["z"], ["k"], [], None), ("cv", [], ["cv"], [], None),
    ("hashed(A, levels=3)", ["A"], [], [], None), ("`class`", ["class"], [], [], None), ("exp(ctxf(center(x)))", ["x"], [], ["ctxf"], None),
    ("{x * y - z}", ["x", "y", "z"], [], [], None), ("C(A, contr.treatment(base='u'))", ["A"], [], [], None),
    ("I(x + cfg.opts.offset)", ["x"], ["cfg.opts.offset"], [], None), ("{z * cfg.k}", ["z"], ["cfg.k"], [], None),
    ("np.linalg.norm([x, z], axis=0)", ["x", "z"], [], [], None), ("I(np.add.reduce([x, y]))", ["x", "y"], [], [], None),
    # dotted (R-style) column names: quoted inside Python code, and bare names whose first component spells a built-in transform
    ("log(`a.b`)", ["a.b"], [], [], None), ("{`a.b` + x}", ["a.b", "x"], [], [], None), ("I(`log.income` * 2)", ["log.income"], [], [], None),
    ("log.income", ["log.income"], [], [], None), ("`scale.x`", ["scale.x"], [], [], None), ("scale.x:center(x)", ["scale.x", "x"], [], [], None),
    ("center(scale)", ["scale"], [], [], "c17.transform_named_column_as_argument"), ("{scale + 1}", ["scale"], [], [], "c17.transform_named_column_as_argument"),
    ("Q('z')", ["z"], [], [], "c17.Q_call_not_reported"), ("Q('x y')", ["x y"], [], [], "c17.Q_call_not_reported"),
    ("{y.clip(0, 1)}", ["y"], [], [], "c17.attribute_access_pseudo_variable"), ("I(z.abs())", ["z"], [], [], "c17.attribute_access_pseudo_variable"),
    ("{sum([q for q in [x, z]])}", ["x", "z"], [], [], "c17.lambda_or_comprehension"), ("{(lambda t: t * 2)(z)}", ["z"], [], [], "c17.lambda_or_comprehension"),
]


def mkdata(seed):
    import pandas as pd

    rng = np.random.default_rng(seed)
    r = random.Random(seed)
    return pd.DataFrame({
        "x": rng.normal(size=N), "y": rng.uniform(1, 2, size=N), "z": rng.normal(size=N),
        "A": pd.Categorical([r.choice("uvw") for _ in range(N)], categories=list("uvw")),
        "B": pd.Categorical([r.choice("kl") for _ in range(N)], categories=list("kl")),
        "x y": rng.normal(size=N), "w+1": rng.normal(size=N), "class": rng.normal(size=N), "unused": rng.normal(size=N),
        "scale": rng.normal(size=N), "C": rng.normal(size=N),
        "a.b": rng.normal(size=N), "log.income": rng.uniform(1, 2, size=N), "scale.x": rng.normal(size=N),
    })


def gen_required(rng: random.Random, tier: str) -> dict:
    k4 = rng.random() < 0.15
    pool = [i for i, t in enumerate(TEMPL) if (t[4] is None) or k4]
    facs = rng.sample(pool, rng.randint(1, 4))
    texts = [TEMPL[i][0] for i in facs]
    if any(v in ("scale", "C") for i in facs for v in TEMPL[i][1]):  # a data column called `scale` / `C` hides the transform of that name
        facs = [i for i in facs if any(v in ("scale", "C") for v in TEMPL[i][1]) or not ("scale(" in TEMPL[i][0] or "C(" in TEMPL[i][0])]
    terms = []
    for _ in range(rng.randint(1, 3)):
        terms.append(rng.sample(facs, rng.randint(1, min(2, len(facs)))))
    return {"terms": terms, "two": rng.random() < 0.3, "seed": rng.randrange(1 << 30)}


def judge_required(case) -> Outcome:
    from formulaic import Formula, model_matrix
    from formulaic.errors import FactorEvaluationError

    out = Outcome()
    used = [TEMPL[i] for t in case["terms"] for i in t]
    out.sig = (tuple(sorted({i for t in case["terms"] for i in t})), case["two"], tuple(sorted(len(t) for t in case["terms"])))
    df = mkdata(case["seed"])
    if not any(v in ("scale", "C") for t in case["terms"] for i in t for v in TEMPL[i][1]):
        df = df.drop(columns=["scale", "C"])
    import types

    ctx = {"k": 2.0, "cv": np.arange(N, dtype=float), "ctxf": ctxf,
           "cfg": types.SimpleNamespace(k=3.0, opts=types.SimpleNamespace(offset=1.5))}
    D = sorted({v for f in used for v in f[1]})
    K = sorted({v for f in used for v in f[2]})
    f = " + ".join(":".join(TEMPL[i][0] for i in t) for t in case["terms"])
    if case["two"]:
        f = "y ~ " + f
        D = sorted(set(D) | {"y"})
    k4 = sorted({u[4] for u in used if u[4]})
    # names a K4 template may wrongly add or drop
    k4_names = set()
    for u in used:
        if u[4]:
            k4_names |= set(u[1]) | {"q", "t", "y.clip", "z.abs"}

    def classify(got, exp, what):
        diff = set(got) ^ set(exp)
        if k4 and diff and diff <= k4_names:
            out.fail(k4[0], f"{f!r}: {what} {sorted(got)} expected {sorted(exp)} (difference {sorted(diff)} comes from the best-effort extractor)")
        else:
            out.fail("c17." + what.replace(" ", "_"), f"{f!r}: {what} {sorted(got)} expected {sorted(exp)}")

    try:
        form = Formula(f)
        rv = sorted(form.required_variables)
    except Exception as e:  # noqa: BLE001
        if k4:
            out.fail(k4[-1], f"{f!r}: Formula.required_variables raised {type(e).__name__}: {str(e)[:100]}")
        else:
            out.fail("c17.required_variables_raised", f"{f!r}: {type(e).__name__}: {str(e)[:150]}")
        return out
    if rv != sorted(set(D) | set(K)):
        classify(rv, set(D) | set(K), "formula required_variables")
        return out
    # a formula edited in place reports the variables of the terms it holds now
    try:
        from formulaic.formula import SimpleFormula

        g = Formula(f)
        target = g.rhs if case["two"] else g
        if isinstance(target, SimpleFormula) and len(target) >= 2:
            _ = target.required_variables
            how = case["seed"] % 4
            k = case["seed"] % len(target)
            if how == 0:
                del target[k]
            elif how == 1:
                target.pop()
            elif how == 2:
                target.remove(target[k])
            else:
                del target[k:]
            fresh = SimpleFormula(list(target), _ordering=target.ordering)
            if set(target.required_variables) != set(fresh.required_variables):
                out.fail("c17.required_stale_after_edit", f"{f!r}: after removing terms in place required_variables is {sorted(target.required_variables)}, a formula built from the remaining terms reports {sorted(fresh.required_variables)}")
            out.see("in_place_edits_checked")
    except Exception as e:  # noqa: BLE001
        if not k4:
            out.fail("c17.required_variables_raised", f"{f!r} after an in-place edit: {type(e).__name__}: {str(e)[:120]}")
    try:
        with quiet():
            mm = model_matrix(f, df, context=ctx)
    except Exception as e:  # noqa: BLE001
        out.fail("c17.materialization_raised", f"{f!r}: {type(e).__name__}: {str(e)[:150]}")
        return out
    ms = mm.model_spec
    if sorted(form.required_variables) != rv:
        out.fail("c17.required_changed_by_materialization", f"{f!r}: formula.required_variables changed after materialization")
    srv = sorted(ms.required_variables)
    if srv != D:
        classify(srv, D, "spec required_variables")
        return out

    def parts(m):
        return list(m._flatten()) if hasattr(m, "_flatten") else [m]

    # sufficiency
    try:
        with quiet():
            mm2 = model_matrix(f, df[D], context=ctx)
        if not all(np.allclose(dense(a), dense(b)) and colnames(a) == colnames(b) for a, b in zip(parts(mm), parts(mm2))):
            out.fail("c17.sufficiency_values", f"{f!r}: matrix on the required columns only differs from the matrix on the full data")
    except Exception as e:  # noqa: BLE001
        out.fail("c17.not_sufficient", f"{f!r}: materialization on exactly {D} failed: {type(e).__name__}: {str(e)[:120]}")
        return out
    # necessity
    for dname in D:
        try:
            with quiet():
                model_matrix(f, df[[c for c in D if c != dname]], context=ctx)
            out.fail("c17.not_necessary", f"{f!r}: materialization still succeeds without required column {dname!r}")
        except FactorEvaluationError:
            out.see("necessity_checked")
        except Exception as e:  # noqa: BLE001
            if dname in ("scale", "C") and "find_nulls" in str(e):
                # finding K4d: without the column the name falls through to the built-in transform, a function object
                out.fail("c17.missing_column_resolves_to_transform", f"{f!r} without {dname!r}: {type(e).__name__}: {str(e)[:100]}")
            else:
                out.fail("c17.necessity_wrong_error", f"{f!r} without {dname!r}: {type(e).__name__}: {str(e)[:100]} (expected FactorEvaluationError)")
    # sources
    bysrc = collections.defaultdict(set)
    for s in (list(ms._flatten()) if hasattr(ms, "_flatten") else [ms]):
        for k_, v in s.variables_by_source.items():
            bysrc[k_] |= set(v)
    if set(bysrc.get("data", ())) != set(D):
        classify(bysrc.get("data", ()), D, "variables_by_source data")
    if None in bysrc and not k4:
        out.fail("c17.source_unresolved", f"{f!r}: variables {sorted(bysrc[None])} are reported with no source although every name is bound in data, context or transforms")
    ctxnames = {v for fct in used for v in fct[2] + fct[3]}
    if not ctxnames <= set(bysrc.get("context", ())):
        out.fail("c17.source_context", f"{f!r}: context names {sorted(ctxnames)} not reported under 'context': {dict((k, sorted(v)) for k, v in bysrc.items())}")
    return out


# ------------------------------------------------------------------ layer sentinels over a two-step history

VALS = ["v", "u", "w"]
DATA_S, CTX_S = 1.0, 2.0


def gen_layers(rng: random.Random, tier: str) -> dict:
    def placement():
        p = {}
        for nm in VALS:
            p[nm] = rng.choice(["data", "context", "both", "both"])
        p["log"] = rng.choice(["builtin", "context", "context"])
        p["exp"] = rng.choice(["builtin", "builtin", "context", "data"])
        return p

    return {"ctx_as": rng.choice(["dict", "dict", "layered", "layered2"]), "steps": [placement(), placement()], "formula": rng.choice([
        "0 + v + u + w", "0 + log(v) + u", "0 + exp(w) + v:u", "0 + I(v + u) + log(w)", "0 + {v * 2} + exp(u) + log(w)", "0 + log(exp(v)) + w"])}


def judge_layers(case) -> Outcome:
    import pandas as pd
    from formulaic import model_matrix
    from formulaic.errors import FactorEvaluationError

    out = Outcome()
    out.sig = (case["formula"], tuple(tuple(sorted(p.items())) for p in case["steps"]))
    f = case["formula"]
    results = []
    for p in case["steps"]:
        data = {"row": [0.0, 0.0, 0.0]}
        ctx = {}
        for nm in VALS:
            if p[nm] in ("data", "both"):
                data[nm] = [DATA_S] * 3
            if p[nm] in ("context", "both"):
                ctx[nm] = np.array([CTX_S] * 3)
        if p["log"] == "context":
            ctx["log"] = lambda q: q * 100.0
        if p["exp"] == "context":
            ctx["exp"] = lambda q: q * 1000.0
        if p["exp"] == "data":
            data["exp"] = [7.0] * 3
        df = pd.DataFrame(data)
        used_vals = [nm for nm in VALS if nm in f]
        env = {}
        src = {}
        for nm in used_vals:
            env[nm] = DATA_S if p[nm] in ("data", "both") else CTX_S
            src[nm] = "data" if p[nm] in ("data", "both") else "context"
        fns = {"log": (lambda q: q * 100.0) if p["log"] == "context" else np.log,
               "exp": (lambda q: q * 1000.0) if p["exp"] == "context" else np.exp, "I": lambda q: q}
        if "log(" in f:
            src["log"] = "context" if p["log"] == "context" else "transforms"
        if "exp(" in f:
            src["exp"] = {"context": "context", "builtin": "transforms", "data": "data"}[p["exp"]]
        expect_fail = "exp(" in f and p["exp"] == "data"  # a data column shadows the callable: calling it must fail
        try:
            with quiet():
                ctx_obj = ctx
                if case.get("ctx_as") in ("layered", "layered2"):
                    # the same names reach the library inside an unnamed layered mapping (what capturing a caller's frame, or
                    # LayeredMapping(locals(), globals()), produces): their source is still the caller's context
                    from formulaic.utils.layered_mapping import LayeredMapping

                    ctx_obj = LayeredMapping(ctx) if case["ctx_as"] == "layered" else LayeredMapping(dict(list(ctx.items())[:1]), dict(list(ctx.items())[1:]))
                mm = model_matrix(f, df, context=ctx_obj)
        except FactorEvaluationError as e:
            if expect_fail:
                out.see("data_shadows_callable")
                results.append(None)
                continue
            out.fail("c17.layer_resolution_raised", f"{f!r} placement {p}: {str(e)[:150]}")
            return out
        except Exception as e:  # noqa: BLE001
            out.fail("c17.layer_resolution_raised", f"{f!r} placement {p}: {type(e).__name__}: {str(e)[:150]}")
            return out
        if expect_fail:
            out.fail("c17.layer_order", f"{f!r}: a data column named 'exp' did not shadow the callable (data must win)")
            return out
        cols = colnames(mm)
        M = dense(mm)
        for j, label in enumerate(cols):
            expr = label.replace(":", "*")
            try:
                exp_val = float(eval(expr, {"__builtins__": {}}, {**env, **fns}))  # noqa: S307 - our own labels
            except Exception as e:  # noqa: BLE001
                out.fail("c17.harness", f"cannot evaluate label {label!r}: {e}")
                return out
            if not np.allclose(M[:, j], exp_val):
                out.fail("c17.layer_order", f"{f!r} placement {p}: column {label!r} = {M[0, j]} but data > context > transforms gives {exp_val}")
                return out
        results.append((mm.model_spec, src, p))
    # after the whole history, every spec must still report the layer its own values came from
    for r in results:
        if r is None:
            continue
        ms, src, p = r
        by = {k: set(v) for k, v in ms.variables_by_source.items()}
        for nm, layer in src.items():
            if nm not in by.get(layer, set()):
                out.fail("c17.source_reported", f"{f!r} placement {p}: {nm!r} came from {layer!r} but variables_by_source says {dict((k, sorted(v)) for k, v in by.items())}")
                return out
        exp_req = {nm for nm, layer in src.items() if layer == "data"}
        if set(ms.required_variables) != exp_req:
            out.fail("c17.spec_required_after_history", f"{f!r} placement {p}: spec.required_variables {sorted(ms.required_variables)} expected {sorted(exp_req)}")
            return out
    out.see("histories_checked")
    return out


# ------------------------------------------------------------------ '.' expansion through materialization


def gen_dot(rng: random.Random, tier: str) -> dict:
    names = rng.sample(["a", "b", "c", "d", "e", "x1", "q q", "zz", "y", "y.lag", "Sepal.Length", "Sepal", "a.b", "b.c.d", "log.income", "scale.x"], rng.randint(2, 8))
    if "y" not in names:
        names.insert(rng.randint(0, len(names)), "y")
    others = [n for n in names if n != "y"]
    resp = rng.choice([n for n in names if "." in n] or ["y"]) if rng.random() < 0.35 else "y"
    others = [n for n in names if n != resp]
    lhs = [resp] + (rng.sample(others, 1) if rng.random() < 0.3 and len(others) > 1 else [])
    extra = rng.choice(["", "", " + I(y*0 + 1)", " - {v}", " + {v}:{w}"])
    rest = [n for n in names if n not in lhs]
    v = rng.choice(rest)
    w = rng.choice(rest)
    extra = extra.format(v=f"`{v}`", w=f"`{w}`")
    return {"names": names, "lhs": lhs, "extra": extra, "v": v, "w": w, "icpt": rng.random() < 0.7,
            "parser": rng.choice(["default", "default", "no_intercept"]),
            # the response may be used inside a Python call or expression (where its name has to be quoted)
            "lhs_wrap": rng.choice([None, None, "I(`{n}`)", "{{`{n}` * 2}}", "abs(`{n}`)"]),
            # the caller's context may itself be a layered mapping that carries a layer called "data" (another materializer's context)
            "ctx_kind": rng.choice([None, None, None, "named_data_layer", "other_materializer"]),
            # a formula without '~' in which '.' is not written first: nothing is on a left-hand side, so '.' is every column
            "one_sided": rng.choice([None, None, None, "call_first", "interaction_first"])}


def judge_dot(case) -> Outcome:
    import pandas as pd
    from formulaic import model_matrix

    out = Outcome()
    names, lhs = case["names"], case["lhs"]
    nointercept = case.get("parser") == "no_intercept"
    out.sig = (len(names), len(lhs), case["extra"].split("`")[0], names.index(lhs[0]), case["icpt"], "." in lhs[0], nointercept, case.get("lhs_wrap"), case.get("ctx_kind"), case.get("one_sided"))
    rng = np.random.default_rng(len(names))
    df = pd.DataFrame({n: rng.normal(size=5) for n in names})
    head = ("" if case["icpt"] else "0 + ") if not nointercept else ("1 + " if case["icpt"] else "")
    wrap = case.get("lhs_wrap") or "`{n}`"
    f = " + ".join(wrap.format(n=n) for n in lhs) + " ~ " + head + "." + case["extra"]
    expected = [n for n in names if n not in lhs]
    if case["extra"].startswith(" - "):
        expected = [n for n in expected if n != case["v"]]
    if case.get("one_sided"):
        u = lhs[0]
        f = head + (f"I(`{u}` * 2) + ." if case["one_sided"] == "call_first" else f"`{u}`:`{case['v']}` + .") + case["extra"]
        expected = list(names)
        if case["extra"].startswith(" - "):
            expected = [n for n in expected if n != case["v"]]
    try:
        with quiet():
            if nointercept:
                from formulaic import Formula
                from formulaic.parser import DefaultFormulaParser

                form = Formula(f, _parser=DefaultFormulaParser(include_intercept=False), _context={"__formulaic_variables_available__": list(names)})
                mm = form.get_model_matrix(df, context={})
            else:
                ctx = {}
                if case.get("ctx_kind") == "named_data_layer":
                    from formulaic.utils.layered_mapping import LayeredMapping

                    ctx = LayeredMapping({"leak": np.arange(5.0), "zz9": np.ones(5)}, name="data")
                elif case.get("ctx_kind") == "other_materializer":
                    from formulaic.materializers import PandasMaterializer

                    ctx = PandasMaterializer(pd.DataFrame({"leak": np.arange(5.0), "zz9": np.ones(5)}), context={"k9": 2.0}).layered_context
                mm = model_matrix(f, df, context=ctx)
    except Exception as e:  # noqa: BLE001
        out.fail("c17.dot_raised", f"{f!r} on columns {names} (parser={case.get('parser')}): {type(e).__name__}: {str(e)[:150]}")
        return out
    rhs_ = mm.rhs if case.get("one_sided") is None else mm  # (a formula without '~' gives a single matrix)
    got = [c for c in colnames(rhs_) if c != "Intercept"]
    first_order = [c for c in got if ":" not in c and not c.startswith("I(")]
    if first_order != expected:
        out.fail("c17.dot_expansion", f"{f!r} on columns {names}: '.' expanded to {first_order}, expected {expected} (data order, minus lhs)")
    if ("Intercept" in colnames(rhs_)) != case["icpt"]:
        out.fail("c17.dot_intercept", f"{f!r}: intercept presence wrong")
    for n in first_order:
        if n not in df.columns:  # (already reported as a wrong expansion)
            continue
        if not np.allclose(dense(rhs_)[:, colnames(rhs_).index(n)], df[n].to_numpy()):
            out.fail("c17.dot_values", f"{f!r}: column {n!r} is not the data column")
    return out


PINNED = [
    ("required", {"terms": [[3], [0]], "two": False, "seed": 1}),
    ("layers", {"steps": [{"v": "data", "u": "context", "w": "both", "log": "builtin", "exp": "builtin"},
                          {"v": "context", "u": "data", "w": "context", "log": "context", "exp": "builtin"}], "formula": "0 + log(v) + u"}),
]
SUBS = {
    "required": Sub(judge=judge_required, gen=gen_required, quick=2000, thorough=60_000, min_decided=150),
    "layers": Sub(judge=judge_layers, gen=gen_layers, quick=2000, thorough=60_000, min_decided=150),
    "dot": Sub(judge=judge_dot, gen=gen_dot, quick=2000, thorough=60_000, min_decided=150),
}
