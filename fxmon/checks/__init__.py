"""Registry of per-property check modules."""

import importlib
import os

IDS = sorted(
    f[:-3].upper() for f in os.listdir(os.path.dirname(__file__)) if f.startswith("c") and f[1:3].isdigit() and f.endswith(".py")
)


def load(prop_id: str):
    return importlib.import_module(f"fxmon.checks.{prop_id.lower()}")
