"""C11 - built-in contrast codings are valid and standard for every level count."""

from __future__ import annotations

import random

import numpy as np

from ..core import Outcome, Sub
from ..data import quiet

ID = "C11"
DESIGN_REF = "DESIGN.md section 4 / C11"
TECHNIQUE = "runtime monitoring: contrast-matrix monitor against own transcriptions of the R/textbook definitions + algebraic laws ([1|C] invertible, K=[1|C]^-1, zero column sums, dense==sparse); encoding monitor indicator(data) @ C"
LEVEL_TEXT = (
    "Every built-in contrast with every option combination is asked (through the real classes) for its coding and coefficient "
    "matrices at every level count n=1..12 (quick) / 1..40 (thorough), dense and sparse, over three label types - an exhaustive "
    "sweep of that finite grid - and each matrix is compared with my own transcription of the standard R definition and with the "
    "scale-invariant laws. A second monitor encodes random data vectors (absent levels, nulls, explicit level lists, every "
    "reference level incl. falsy labels) directly and through formulas and compares with indicator(data) @ C."
)
LEVEL_NOTE = "trusts: my transcriptions of contr.treatment/SAS/sum/helmert/sdif/poly (40 lines), numpy linear algebra; polynomial contrasts are checked up to 12 levels (10 with unequal scores): beyond that the defining identities are lost to rounding in every implementation"
RULE = (
    "matrices: exhaustive grid n x {treatment(each base), SAS(each base), sum, helmert(reverse x scale), diff(backward), "
    "poly(with/without scores)} x {dense, sparse} x label type {str, int, mixed-order str}; encodings: random (n, contrast, data "
    "vector with absent levels/nulls, levels= reordering, reduced/full, output, direct/formula). distinct = grid point / "
    "(kind, options, n, label type, null/absent pattern, path)"
)
ASSUMPTIONS = [
    "polynomial contrasts are compared with a QR-based reference for n <= 10; above that the reference itself loses precision, so "
    "orthonormality, zero sums and span equality are asserted instead",
]


# ------------------------------------------------------------------ textbook references


def ref_matrix(kind, n, o):
    if kind in ("treatment", "SAS"):
        b = o.get("base_index", 0 if kind == "treatment" else n - 1)
        return np.delete(np.eye(n), b, axis=1)
    if kind == "sum":
        M = np.eye(n, n - 1)
        if n > 1:
            M[-1, :] = -1
        return M
    if kind == "helmert":
        rev, sc = o.get("reverse", True), o.get("scale", False)
        M = np.zeros((n, n - 1))
        for j in range(n - 1):
            if rev:  # R's contr.helmert: column j compares level j+1 with the mean of the previous ones
                M[: j + 1, j] = -1
                M[j + 1, j] = j + 1
                d = j + 2
            else:  # forward Helmert: level j versus the mean of the subsequent ones
                M[j, j] = n - j - 1
                M[j + 1:, j] = -1
                d = n - j
            if sc:
                M[:, j] /= d
        return M
    if kind == "diff":  # MASS::contr.sdif
        M = np.zeros((n, n - 1))
        for j in range(1, n):
            M[:j, j - 1] = -(n - j) / n
            M[j:, j - 1] = j / n
        return M if o.get("backward", True) else -M
    if kind == "poly":
        sc = np.asarray(o.get("scores") or np.arange(n), float)
        V = np.vander(sc - sc.mean(), n, increasing=True)
        Q, R = np.linalg.qr(V)
        Q = Q * np.sign(np.diag(R))
        return Q[:, 1:]
    raise ValueError(kind)


def make_levels(n, labels):
    if labels == "int":
        return list(range(n))
    if labels == "mixed":
        return [f"L{(i * 7 + 3) % n if n > 1 else 0}_{i}" for i in range(n)]
    return [f"l{i:02d}" for i in range(n)]


def make_contrast(kind, o, levels):
    from formulaic.transforms import contrasts as C

    if kind in ("treatment", "SAS"):
        cls = C.TreatmentContrasts if kind == "treatment" else C.SASContrasts
        return cls(base=levels[o["base_index"]]) if "base_index" in o else cls()
    if kind == "sum":
        return C.SumContrasts()
    if kind == "helmert":
        return C.HelmertContrasts(reverse=o.get("reverse", True), scale=o.get("scale", False))
    if kind == "diff":
        return C.DiffContrasts(backward=o.get("backward", True))
    if kind == "poly":
        sc = o.get("scores")
        if sc is not None and o.get("scores_as") == "array":  # the scores handed over as a numpy array / tuple rather than a list
            sc = np.array(sc)
        elif sc is not None and o.get("scores_as") == "tuple":
            sc = tuple(sc)
        return C.PolyContrasts(scores=sc)
    raise ValueError(kind)


def arr(x):
    import scipy.sparse as sp

    if sp.issparse(x):
        return np.asarray(x.toarray(), float)
    if hasattr(x, "values"):
        return np.asarray(x.values, float)
    return np.asarray(x, float)


def option_grid(n):
    grid = [("treatment", {}), ("SAS", {}), ("sum", {})]
    for b in range(n):
        grid.append(("treatment", {"base_index": b}))
        grid.append(("SAS", {"base_index": b}))
    for rev in (True, False):
        for sc in (True, False):
            grid.append(("helmert", {"reverse": rev, "scale": sc}))
    for bw in (True, False):
        grid.append(("diff", {"backward": bw}))
    grid.append(("poly", {}))
    grid.append(("poly", {"scores": [float(i * i + 1) for i in range(n)]}))
    grid.append(("poly", {"scores": [float(3 * i - 2) for i in range(n)]}))
    grid.append(("poly", {"scores": [float(i * i + 1) for i in range(n)], "scores_as": "array"}))
    grid.append(("poly", {"scores": [float(2 * i + 1) for i in range(n)], "scores_as": "tuple"}))
    if n >= 2:  # scores that do not ascend with the level order (descending; rotated)
        grid.append(("poly", {"scores": [float(2 * (n - i)) for i in range(n)]}))
        grid.append(("poly", {"scores": [1.0 + 1.5 * ((i + n // 2) % n) for i in range(n)]}))
        grid.append(("poly", {"scores": [float(3 * (n - i) + (i % 2)) for i in range(n)], "scores_as": "array"}))
    return grid


def enum_matrices(tier: str):
    nmax = 12 if tier == "quick" else 40
    for n in range(1, nmax + 1):
        for kind, o in option_grid(n):
            if kind == "poly" and n > (12 if not o.get("scores") else 10):
                continue  # orthogonal polynomials of degree > ~10 are numerically meaningless in any implementation (see LEVEL_NOTE)
            for labels in ("str", "int", "mixed"):
                if labels != "str" and kind not in ("treatment", "SAS") and n % 3:
                    continue  # label type only matters for base lookup / names; thin out
                yield {"n": n, "kind": kind, "opts": o, "labels": labels}


def judge_matrix(case) -> Outcome:
    out = Outcome()
    n, kind, o = case["n"], case["kind"], case["opts"]
    out.sig = (n, kind, tuple(sorted((k, str(v)) for k, v in o.items())), case["labels"])
    levels = make_levels(n, case["labels"])
    c = make_contrast(kind, o, levels)
    tag = f"{kind}{o} n={n} labels={case['labels']}"
    if "scores" not in o and "base" not in o and n % 2 == 0:
        # one contrasts object may serve factors with different numbers of levels (e.g. passed in through the context): what it
        # answered for another level list before must not matter
        for m in (n + 3, max(1, n - 1)):
            try:
                c.get_coding_matrix(make_levels(m, case["labels"]), reduced_rank=True, sparse=False)
            except Exception:  # noqa: BLE001  (that other answer is judged in its own case)
                pass
        tag += " [object used for other level counts before]"
    R = ref_matrix(kind, n, o)
    mats = {}
    for sparse in (False, True):
        try:
            M = arr(c.get_coding_matrix(levels, reduced_rank=True, sparse=sparse))
            F = arr(c.get_coding_matrix(levels, reduced_rank=False, sparse=sparse))
            K = arr(c.get_coefficient_matrix(levels, reduced_rank=True, sparse=sparse))
            KF = arr(c.get_coefficient_matrix(levels, reduced_rank=False, sparse=sparse))
            if n == 1:  # scipy's sparse inverse of a 1x1 matrix comes back as a length-1 vector: same number
                K, KF = K.reshape(1, 1), KF.reshape(1, 1)
        except Exception as e:  # noqa: BLE001
            out.fail("c11.matrix_raised", f"{tag} sparse={sparse}: {type(e).__name__}: {str(e)[:150]}")
            return out
        mats[sparse] = (M, F, K, KF)
        if M.shape != (n, n - 1):
            out.fail("c11.shape", f"{tag} sparse={sparse}: coding matrix shape {M.shape}")
            return out
        if F.shape != (n, n) or not np.allclose(F, np.eye(n)):
            out.fail("c11.full_not_identity", f"{tag} sparse={sparse}: full coding is not the identity")
        if not np.allclose(KF, np.eye(n), atol=1e-9):
            out.fail("c11.full_coefficients", f"{tag} sparse={sparse}: full-rank coefficient matrix is not the identity")
        J = np.hstack([np.ones((n, 1)), M])
        if np.linalg.matrix_rank(J) != n:
            out.fail("c11.not_invertible", f"{tag} sparse={sparse}: [1|C] has rank {np.linalg.matrix_rank(J)} < {n}")
            return out
        tol = 1e-8 if not (kind == "poly" and n > 10) else 1e-5 * n
        if K.shape != (n, n) or not np.allclose(K @ J, np.eye(n), atol=tol):
            out.fail("c11.coefficient_inverse", f"{tag} sparse={sparse}: K.[1|C] != I (max err {np.abs(K @ J - np.eye(n)).max():.2e})")
        if kind not in ("treatment", "SAS") and n > 1 and not np.allclose(M.sum(axis=0), 0, atol=1e-8):
            out.fail("c11.column_sums", f"{tag} sparse={sparse}: column sums {M.sum(axis=0)[:4]}")
        if kind == "poly" and n > 10:
            if not np.allclose(M.T @ M, np.eye(n - 1), atol=1e-6):
                out.fail("c11.poly_orthonormal", f"{tag}: columns not orthonormal")
            P = R @ (R.T @ M)
            if not np.allclose(P, M, atol=1e-4):
                out.fail("c11.poly_span", f"{tag}: span differs from the polynomial space")
        elif M.shape != R.shape or not np.allclose(M, R, atol=1e-8):
            out.fail("c11.textbook", f"{tag} sparse={sparse}: coding matrix differs from the standard definition: got {M[:3].tolist()} expected {R[:3].tolist()}")
        out.see("matrices_checked")
    if len(mats) == 2 and not all(np.allclose(a, b, atol=1e-9) for a, b in zip(mats[False], mats[True])):
        out.fail("c11.dense_vs_sparse", f"{tag}: dense and sparse forms differ")
    # names / metadata
    names = list(c.get_coding_column_names(levels, reduced_rank=True))
    if len(names) != n - 1 or len(list(c.get_coding_column_names(levels, reduced_rank=False))) != n:
        out.fail("c11.names", f"{tag}: {len(names)} reduced names for n={n}")
    if kind in ("treatment", "SAS"):
        b = o.get("base_index", 0 if kind == "treatment" else n - 1)
        if names != [lv for i, lv in enumerate(levels) if i != b]:
            out.fail("c11.names", f"{tag}: names {names[:4]} do not skip the reference level {levels[b]!r}")
        if c.get_drop_field(levels, reduced_rank=False) != levels[b]:
            out.fail("c11.drop_field", f"{tag}: drop field {c.get_drop_field(levels, reduced_rank=False)!r} != reference {levels[b]!r}")
    if c.get_spans_intercept(levels, reduced_rank=False) is not True or c.get_spans_intercept(levels, reduced_rank=True) is not False:
        out.fail("c11.spans_intercept", f"{tag}: spans_intercept metadata wrong")
    # ContrastsState view
    from formulaic.transforms.contrasts import ContrastsState

    st = ContrastsState(c, levels)
    if not np.allclose(arr(st.get_coding_matrix()), mats[False][0]) or not np.allclose(arr(st.get_coefficient_matrix()), mats[False][2]):
        out.fail("c11.contrasts_state", f"{tag}: ContrastsState matrices differ from the contrast's own")
    # ... for every option of the introspection calls (rank, storage)
    for sparse in (False, True):
        if sparse not in mats:
            continue
        for rr, (im, ik) in ((True, (0, 2)), (False, (1, 3))):
            try:
                a = arr(st.get_coding_matrix(reduced_rank=rr, sparse=sparse))
                b = arr(st.get_coefficient_matrix(reduced_rank=rr, sparse=sparse))
                if n == 1:
                    b = b.reshape(1, 1)
                if a.shape != mats[sparse][im].shape or not np.allclose(a, mats[sparse][im]) or b.shape != mats[sparse][ik].shape or not np.allclose(b, mats[sparse][ik]):
                    out.fail("c11.contrasts_state", f"{tag}: ContrastsState matrices (reduced_rank={rr}, sparse={sparse}) differ from the contrast's own")
            except Exception as e:  # noqa: BLE001
                out.fail("c11.contrasts_state", f"{tag}: ContrastsState (reduced_rank={rr}, sparse={sparse}): {type(e).__name__}: {str(e)[:100]}")
    return out


# ------------------------------------------------------------------ encoding monitor


def gen_encoding(rng: random.Random, tier: str) -> dict:
    n = rng.choice([1, 2, 2, 3, 3, 4, 5, 6, 8, 11] if tier == "quick" else [1, 2, 3, 4, 5, 6, 8, 11, 17, 25])
    kind, o = rng.choice(option_grid(n))
    if kind == "poly" and n > (12 if not o.get("scores") else 10):
        kind, o = "sum", {}
    labels = rng.choice(["str", "int", "mixed"])
    levels = make_levels(n, labels)
    present = levels if rng.random() < 0.5 else rng.sample(levels, rng.randint(1, n))
    m = rng.randint(1, 30)
    data = [rng.choice(present) for _ in range(m)]
    if rng.random() < 0.3:
        for i in rng.sample(range(m), rng.randint(1, max(1, m // 4))):
            data[i] = None
    explicit = rng.random() < 0.5 or set(data) - {None} != set(levels)
    order = rng.sample(levels, n) if explicit and rng.random() < 0.5 else levels
    return {"n": n, "kind": kind, "opts": o, "labels": labels, "data": data, "explicit_levels": explicit,
            "level_order": order if explicit else None, "reduced": rng.random() < 0.6,
            "output": rng.choice(["pandas", "numpy", "sparse"]), "path": rng.choice(["direct", "formula", "formula", "apply", "state_categories"])}


def judge_encoding(case) -> Outcome:
    import pandas as pd
    from formulaic import model_matrix
    from formulaic.transforms.contrasts import encode_contrasts

    out = Outcome()
    n, kind, o = case["n"], case["kind"], case["opts"]
    levels0 = make_levels(n, case["labels"])
    data = case["data"]
    present_sorted = sorted({v for v in data if v is not None})
    if case["explicit_levels"]:
        levels = list(case["level_order"])
    else:
        levels = present_sorted  # inferred: sorted distinct values
    nl = len(levels)
    if nl == 0:
        out.decided = False
        return out
    # option values refer to positions in the *used* level list
    o = dict(o)
    if "base_index" in o:
        o["base_index"] = o["base_index"] % nl
    if "scores" in o:
        o["scores"] = o["scores"][:nl] if len(o["scores"]) >= nl else [float(i * i + 1) for i in range(nl)]
    c = make_contrast(kind, o, levels)
    out.sig = (kind, tuple(sorted((k, str(v)) for k, v in o.items())), nl, case["labels"], None in data,
               set(present_sorted) != set(levels), case["reduced"], case["output"], case["path"], case["explicit_levels"])
    tag = f"{kind}{o} levels={levels} data={data[:8]}.. reduced={case['reduced']} out={case['output']} path={case['path']}"
    ind = np.array([[1.0 if v == lv else 0.0 for lv in levels] for v in data]).reshape(len(data), nl)
    Cm = ref_matrix(kind, nl, o) if case["reduced"] else np.eye(nl)
    expected = ind @ Cm
    series = pd.Series(data, dtype=object)
    try:
        with quiet():
            if case["path"] == "direct":
                enc = encode_contrasts(series, contrasts=c, levels=levels if case["explicit_levels"] else None,
                                       reduced_rank=case["reduced"], output=case["output"], _state={})
                got = arr(getattr(enc, "__wrapped__", enc))
                names = list(enc.__formulaic_metadata__.column_names)
            elif case["path"] == "state_categories":  # hand-written encoder state: just the level list, as the library documents
                enc = encode_contrasts(series, contrasts=c, reduced_rank=case["reduced"], output=case["output"], _state={"categories": list(levels)})
                got = arr(getattr(enc, "__wrapped__", enc))
                names = list(enc.__formulaic_metadata__.column_names)
            elif case["path"] == "apply":  # the contrasts applied to an indicator matrix held in the container the output type names
                import scipy.sparse as sp

                dummies = {"pandas": pd.DataFrame(ind, columns=list(levels)), "numpy": ind.copy(), "sparse": sp.csc_matrix(ind)}[case["output"]]
                enc = c.apply(dummies, levels=levels, reduced_rank=case["reduced"])
                got = arr(getattr(enc, "__wrapped__", enc))
                names = list(enc.__formulaic_metadata__.column_names)
            else:
                df = pd.DataFrame({"v": series})
                ctx = {"cc": c, "lv": levels}
                f = ("1 + " if case["reduced"] else "0 + ") + ("C(v, cc, levels=lv)" if case["explicit_levels"] else "C(v, cc)")
                mm = model_matrix(f, df, output=case["output"], na_action="ignore", context=ctx)
                from ..data import dense

                got = dense(mm)
                names = list(mm.model_spec.column_names)
                if case["reduced"]:
                    if not np.allclose(got[:, 0], 1.0):
                        out.fail("c11.intercept", f"{tag}: intercept column is not ones")
                    got = got[:, 1:]
                    names = names[1:]
    except Exception as e:  # noqa: BLE001
        out.fail("c11.encode_raised", f"{tag}: {type(e).__name__}: {str(e)[:200]}")
        return out
    if kind == "poly" and nl > 10 and case["reduced"]:
        ok = got.shape == expected.shape and np.allclose(got, expected, atol=1e-5)
    else:
        ok = got.shape == expected.shape and np.allclose(got, expected, atol=1e-8)
    if not ok:
        out.fail("c11.encoding", f"{tag}: encoded rows {got[:3].tolist()} != indicator @ coding {expected[:3].tolist()} (shape {got.shape} vs {expected.shape})")
    exp_names = [str(x) for x in c.get_coding_column_names(levels, reduced_rank=case["reduced"])]
    if case["path"] in ("direct", "apply", "state_categories"):
        if [str(x) for x in names] != exp_names:
            out.fail("c11.encoding_names", f"{tag}: names {names} != {exp_names}")
    else:
        if len(names) != len(exp_names) or not all(str(e) in nm for nm, e in zip(names, exp_names)):
            out.fail("c11.encoding_names", f"{tag}: column names {names} do not carry the level names {exp_names}")
    return out


PINNED = [
    ("encoding", {"n": 3, "kind": "SAS", "opts": {"base_index": 0}, "labels": "int", "data": [0, 1, 2, 1, 0], "explicit_levels": False,
                  "level_order": None, "reduced": True, "output": "pandas", "path": "formula"}),
]
SUBS = {
    "matrices": Sub(judge=judge_matrix, enum=enum_matrices, min_decided=300),
    "encoding": Sub(judge=judge_encoding, gen=gen_encoding, quick=8000, thorough=150_000, min_decided=500),
}
