"""C01 - formula strings denote exactly the documented Wilkinson term algebra.

Monitor shape: the generator builds an *AST* (so the intended structure is known without trusting
the library's tokenizer), renders it to a string with random spacing and minimal parentheses, and
the oracle evaluates the AST with an independent executable model of the documented algebra
(docsite/docs/guides/grammar.md).  The library's answer for the string must equal the model's.
"""

from __future__ import annotations

import itertools
import random

from ..core import Outcome, Sub

ID = "C01"
DESIGN_REF = "DESIGN.md section 4 / C01"
RULE = (
    "cases are random ASTs over the documented grammar (names, quoted names, calls, {python}, 1, 0, k:name, "
    "parentheses, + - * / : ** ^ %in% ~ | ., sign runs) rendered with random spacing, x parser configuration "
    "(intercept on/off, feature-flag subset, ordering); plus metamorphic identity pairs and an exhaustive "
    "enumeration of small ASTs. A case is non-trivial if it has >= 1 operator; distinct = distinct "
    "(AST shape with names abstracted, configuration) signatures"
)
TECHNIQUE = "runtime monitoring: boundary recorder on Formula()/get_terms + executable reference term algebra over generated ASTs; metamorphic identity monitor; exhaustive small-AST sweep"
LEVEL_TEXT = (
    "Every generated formula string is executed by the real parser and its returned term structure is compared with an "
    "independent executable model of the documented algebra evaluated on the generating AST; tens of thousands (quick) to "
    "over a million (thorough) distinct programs x configurations per run plus an exhaustive sweep of all small ASTs. "
    "Held-on-observed, not a proof: unbounded nesting is sampled to depth 5."
)
LEVEL_NOTE = "trusts: the reference algebra (~120 lines, transcribed from the grammar guide), CPython, ast.unparse for Python-fragment normal forms"
ASSUMPTIONS = [
    "the reference algebra in this file transcribes docsite/docs/guides/grammar.md (precedence, associativity, set semantics)",
    "rejection (FormulaParsingError) of a string with a sign run directly after : * / %in% ** is acceptable (class U); "
    "every other generated string is in the documented core grammar and must parse (class K)",
    "factor order inside a term is not part of the property (observed and counted, not judged)",
]

# ---------------------------------------------------------------- reference algebra

NAME_POOL = [
    # (rendered text, expected factor expression)
    ("a", "a"), ("b", "b"), ("c", "c"), ("d", "d"), ("e", "e"), ("x1", "x1"), ("long_name", "long_name"),
    ("`a b`", "a b"), ("`x+y`", "x+y"), ("`q:r`", "q:r"), ("`a:b`", "a:b"), ("`b:a`", "b:a"), ("`a:b:c`", "a:b:c"), ("f(a)", "f(a)"), ("log(x)", "log(x)"),
    ("{a+b}", "a + b"), ("{ x * 2 }", "x * 2"), ("g(a, b)", "g(a, b)"), ("h( c )", "h(c)"), ("a.b", "a.b"),
    ("I(a**2)", "I(a ** 2)"), ("center(x1)", "center(x1)"), ("C(e, contr.treatment)", "C(e, contr.treatment)"),
]
NAME_EXPR = dict(NAME_POOL)


def expr_of(rendered: str) -> str:
    """Factor expression the documentation assigns to a rendered atom."""
    if rendered in NAME_EXPR:
        return NAME_EXPR[rendered]
    if rendered.startswith("`"):
        return rendered.strip("`")
    if rendered.startswith("{") or "(" in rendered:
        import ast as pyast

        src = rendered[1:-1] if rendered.startswith("{") else rendered
        return pyast.unparse(pyast.parse(src.strip(), mode="eval"))
    return rendered


class ExpectReject(Exception):
    pass


def tkey(t):
    return tuple(sorted(t))


class OS:
    """Ordered set of terms (first appearance wins); a term is a tuple of distinct factor strings."""

    def __init__(self, items=()):
        self.d = {}
        for t in items:
            self.d.setdefault(tkey(t), t)

    def __iter__(self):
        return iter(self.d.values())

    def __len__(self):
        return len(self.d)

    def union(self, o):
        return OS(list(self) + list(o))

    def minus(self, o):
        ks = set(o.d)
        return OS([t for t in self if tkey(t) not in ks])


def tmul(a, b):
    return tuple(dict.fromkeys(a + b))


def colon(X, Y):
    return OS([tmul(x, y) for x in X for y in Y])


def star(X, Y):
    return X.union(Y).union(colon(X, Y))


def slash(X, Y):
    if len(X) == 0:
        raise ExpectReject("empty parent operand of / or %in%")
    common = ()
    for x in X:
        common = tmul(common, x)
    return X.union(OS([tmul(common, y) for y in Y]))


def power(X, n):
    R = X
    for _ in range(n - 1):
        R2 = colon(R, X)
        if list(R2) == list(R):  # products of more terms than there are only repeat earlier ones
            break
        R = R2
    return R


def parity(signs):
    return "-" if signs.count("-") % 2 else "+"


def is_literal(f):
    return f.replace(".", "", 1).isdigit()


def degree(t):
    return sum(1 for f in t if not is_literal(f))


class Ctx:
    def __init__(self, dot=None):
        self.dot = dot  # list of variables '.' expands to, or None


def ev(node, ctx):
    t = node[0]
    if t == "name":
        return OS([(expr_of(node[1]),)])
    if t == "one":
        return OS([("1",)])
    if t == "scaled":
        return OS([(node[1], node[2])])
    if t == "dot":
        if ctx.dot is None:
            raise ExpectReject("'.' without variable context")
        return OS([(v,) for v in ctx.dot])
    if t == "paren":
        return ev_chain(node[1], None, ctx)
    if t == "pow":
        base = ev(node[2], ctx)
        if not isinstance(node[3], int):
            raise ExpectReject(f"exponent {node[3]!r} is not a positive integer literal")
        return power(base, node[3])
    if t == "bin":
        L = ev(node[2], ctx)
        R = ev(node[3], ctx)
        if node[4]:
            R = R if parity(node[4]) == "+" else OS()
        op = node[1]
        if op == ":":
            return colon(L, R)
        if op == "*":
            return star(L, R)
        if op == "/":
            return slash(L, R)
        if op == "%in%":
            return slash(R, L)
    raise ValueError(node)


def ev_chain(chain, acc, ctx):
    acc = OS() if acc is None else acc
    for signs, item in chain:
        s = parity(signs) if signs else "+"
        if item[0] == "zero":  # 0 is rewritten to -1 at token level
            item = ["one"]
            s = "-" if s == "+" else "+"
        v = ev(item, ctx)
        acc = acc.union(v) if s == "+" else acc.minus(v)
    return acc


def check_scaling_conflict(os_):
    """The library rejects a term set in which two terms differ only by literal factors."""
    seen = set()
    for t in os_:
        h = tuple(sorted(f for f in t if not is_literal(f)))
        if len(t) == 1 and is_literal(t[0]) and t[0] != "1":
            raise ExpectReject("bare numeric literal")
        if h in seen:
            raise ExpectReject("term seen with a different scaling")
        seen.add(h)


def finish(os_, ordering):
    check_scaling_conflict(os_)
    ts = [tkey(t) for t in os_]
    if ordering == "degree":
        ts = sorted(ts, key=degree)
    elif ordering == "sort":
        ts = sorted(ts, key=lambda k: (degree(k), list(k)))
    return [list(t) for t in ts]


def names_in_chain(chain, out):
    for _, item in chain:
        names_in(item, out)
    return out


def names_in(node, out):
    t = node[0]
    if t == "name":
        out.append(node[1])
    elif t == "scaled":
        out.append(node[2])
    elif t == "paren":
        names_in_chain(node[1], out)
    elif t == "pow":
        names_in(node[2], out)
    elif t == "bin":
        names_in(node[2], out)
        names_in(node[3], out)


def expected(case):
    """Reference evaluation of the case's AST -> nested structure of term lists, or ExpectReject."""
    ast = case["ast"]
    icpt = case["icpt"]
    ordering = case.get("ordering", "degree")
    flags = set(case.get("flags", ["TWOSIDED", "MULTIPART"]))
    lhs = ast.get("lhs")
    parts = ast["parts"]
    if lhs is not None and "TWOSIDED" not in flags:
        raise ExpectReject("two-sided formula with TWOSIDED disabled")
    if len(parts) > 1 and "MULTIPART" not in flags:
        raise ExpectReject("multi-part formula with MULTIPART disabled")
    dot = None
    if case.get("avail") is not None:
        # '.' = data variables not used on the lhs, in data order (only plain-name lookups are variables)
        used = set()
        if lhs is not None:
            for n in names_in_chain(lhs, []):
                used.update(lookup_variables(n))
        dot = [v for v in case["avail"] if v not in used]
    ctx = Ctx(dot)
    exp_parts = [finish(ev_chain(p, OS([("1",)]) if icpt else None, ctx), ordering) for p in parts]
    rhs = exp_parts[0] if len(parts) == 1 else tuple(exp_parts)
    if lhs is not None:
        return {"lhs": finish(ev_chain(lhs, None, Ctx(None if dot is None else [])), ordering), "rhs": rhs}
    if len(parts) > 1:
        return {"root": rhs}
    return rhs


def lookup_variables(rendered_name):
    """Variables a rendered atom contributes to the lhs 'used' set (token.required_variables)."""
    if rendered_name.startswith("`"):
        return [rendered_name.strip("`")]
    if "(" in rendered_name or "{" in rendered_name:
        import ast as pyast

        src = rendered_name.strip("{}") if rendered_name.startswith("{") else rendered_name
        try:
            tree = pyast.parse(src.strip(), mode="eval")
        except SyntaxError:
            return []
        return [n.id for n in pyast.walk(tree) if isinstance(n, pyast.Name)]
    return [rendered_name]


# ---------------------------------------------------------------- library side


def lib_structure(form):
    from formulaic.utils.structured import Structured

    def conv(f):
        return [sorted(x.expr for x in t.factors) for t in f]

    def order(f):
        return [[x.expr for x in t.factors] for t in f]

    if isinstance(form, Structured):
        d = form._to_dict()

        def rec(o, fn):
            if isinstance(o, dict):
                return {k: rec(v, fn) for k, v in o.items()}
            if isinstance(o, tuple):
                return tuple(rec(v, fn) for v in o)
            return fn(o)

        return rec(d, conv), rec(d, order)
    return conv(form), order(form)


_PARSER_CACHE: dict = {}


def cached_parser(case):
    """One long-lived parser per configuration, as the library's own module-level default parsers are: every case parsed in
    this process goes through the same instance, so state that leaks from one parse into the next shows up."""
    key = (case["icpt"], tuple(case.get("flags", ["TWOSIDED", "MULTIPART"])))
    if key not in _PARSER_CACHE:
        _PARSER_CACHE[key] = make_parser(case)
    return _PARSER_CACHE[key]


def make_parser(case):
    from formulaic.parser import DefaultFormulaParser

    flags = case.get("flags", ["TWOSIDED", "MULTIPART"])
    ff = DefaultFormulaParser.FeatureFlags.NONE if hasattr(DefaultFormulaParser.FeatureFlags, "NONE") else 0
    acc = None
    for f in flags:
        v = getattr(DefaultFormulaParser.FeatureFlags, f)
        acc = v if acc is None else acc | v
    if acc is None:
        acc = DefaultFormulaParser.FeatureFlags(0)
    return DefaultFormulaParser(include_intercept=case["icpt"], feature_flags=acc)


def norm_sorted(o):
    if isinstance(o, dict):
        return {k: norm_sorted(v) for k, v in o.items()}
    if isinstance(o, tuple):
        return tuple(norm_sorted(v) for v in o)
    return [sorted(t) for t in o]


def has_U(chain):
    def rec(node):
        t = node[0]
        if t == "bin":
            return bool(node[4]) or rec(node[2]) or rec(node[3])
        if t == "paren":
            return any(rec(i) for _, i in node[1])
        if t == "pow":
            return rec(node[2])
        return False

    return any(rec(i) for _, i in chain)


def shape(chain):
    """AST shape with names abstracted (for distinctness)."""

    def rec(node):
        t = node[0]
        if t == "name":
            return "n" + ("q" if node[1].startswith("`") else "p" if ("(" in node[1] or "{" in node[1]) else "")
        if t in ("one", "zero", "dot"):
            return t
        if t == "scaled":
            return "k:n"
        if t == "paren":
            return ("(", tuple((parity(s) if s else "", len(s), rec(i)) for s, i in node[1]))
        if t == "pow":
            return ("pow", rec(node[2]), node[3])
        return (node[1], rec(node[2]), rec(node[3]), node[4])

    return tuple((parity(s) if s else "", len(s), rec(i)) for s, i in chain)


def count_ops(chain):
    def rec(node):
        t = node[0]
        if t == "bin":
            return 1 + rec(node[2]) + rec(node[3])
        if t == "paren":
            return count_ops(node[1])
        if t == "pow":
            return 1 + rec(node[2])
        if t == "scaled":
            return 1
        return 0

    return sum(rec(i) + (1 if s else 0) for s, i in chain) + max(0, len(chain) - 1)


def judge_algebra(case) -> Outcome:
    from formulaic import Formula
    from formulaic.errors import FormulaParsingError

    out = Outcome()
    ast = case["ast"]
    chains = ([ast["lhs"]] if ast.get("lhs") is not None else []) + ast["parts"]
    U = any(has_U(c) for c in chains)
    nops = sum(count_ops(c) for c in chains) + (len(ast["parts"]) - 1) + (1 if ast.get("lhs") is not None else 0)
    cfg = (case["icpt"], tuple(sorted(case.get("flags", ["TWOSIDED", "MULTIPART"]))), case.get("ordering", "degree"),
           case.get("avail") is not None)
    out.sig = (tuple(shape(c) for c in chains), ast.get("lhs") is not None, cfg) if nops >= 1 else None
    try:
        exp = expected(case)
        expect_reject = None
    except ExpectReject as e:
        exp = None
        expect_reject = str(e)
    ctx = {}
    if case.get("avail") is not None:
        ctx["__formulaic_variables_available__"] = list(case["avail"])
    try:
        form = Formula(case["s"], _parser=cached_parser(case), _ordering=case.get("ordering", "degree"), _context=dict(ctx))
        got_sorted, got_order = lib_structure(form)
    except FormulaParsingError as e:
        # history independence: a fresh parser must agree with the long-lived one
        try:
            Formula(case["s"], _parser=make_parser(case), _ordering=case.get("ordering", "degree"), _context=dict(ctx))
            out.fail("c01.parse_depends_on_history", f"{case['s']!r} is rejected by a parser that has parsed other formulas before ({str(e)[:100]!r}) but accepted by a fresh parser")
            return out
        except FormulaParsingError:
            pass
        if expect_reject:
            out.see("rejected_as_expected")
        elif U:
            out.see("rejected_class_U")
        else:
            out.fail("c01.core_grammar_rejected", f"{case['s']!r} (class K) rejected: {str(e)[:160]!r}")
        return out
    except Exception as e:
        out.fail("c01.internal_exception", f"{case['s']!r}: {type(e).__name__}: {str(e)[:160]}")
        return out
    if expect_reject:
        import re

        if "exponent" in str(expect_reject) and re.search(r"(\*\*|\^)\s*\(\s*(\d+)(\s*\+\s*\2)+\s*\)", case["s"]):
            # finding K10: '(1+1)' is the one-element term set {1} by the time the power operator sees it
            out.fail("c01.exponent_sum_of_equal_literals", f"{case['s']!r}: an exponent written as a sum of equal literals is read as that literal; got {got_sorted}")
        else:
            out.fail("c01.accepted_outside_grammar", f"{case['s']!r} should be rejected ({expect_reject}) but gave {got_sorted}")
        return out
    exp_n = norm_sorted(exp)
    if got_sorted != exp_n:
        out.fail("c01.term_structure_differs" + ("_U" if U else ""),
                 f"{case['s']!r} cfg={cfg}: library {got_sorted} != reference {exp_n}")
        return out
    out.see("equal_U" if U else "equal")
    # factor order inside terms: observed only
    if case.get("ordering", "degree") != "sort":
        ref_order = expected_order(case)
        if ref_order is not None and ref_order != got_order:
            out.see("factor_order_differs_from_first_appearance")
    return out


def expected_order(case):
    """Reference with first-appearance factor order inside terms (observation only)."""
    try:
        ast = case["ast"]
        ordering = case.get("ordering", "degree")
        dot = None
        if case.get("avail") is not None:
            return None
        ctx = Ctx(dot)

        def fin(os_):
            ts = list(os_)
            if ordering == "degree":
                ts = sorted(ts, key=degree)
            return [list(t) for t in ts]

        parts = [fin(ev_chain(p, OS([("1",)]) if case["icpt"] else None, ctx)) for p in ast["parts"]]
        rhs = parts[0] if len(parts) == 1 else tuple(parts)
        if ast.get("lhs") is not None:
            return {"lhs": fin(ev_chain(ast["lhs"], None, ctx)), "rhs": rhs}
        if len(parts) > 1:
            return {"root": rhs}
        return rhs
    except ExpectReject:
        return None


# ---------------------------------------------------------------- generation and rendering

PREC = {":": 300, "*": 200, "/": 200, "%in%": 200}
FLAG_SUBSETS = [list(c) for r in range(4) for c in itertools.combinations(["TWOSIDED", "MULTIPART", "MULTISTAGE"], r)]


class Gen:
    def __init__(self, rng: random.Random, allow_U: bool, max_depth: int, names=None, bad_exponents: bool = True):
        self.rng = rng
        self.bad_exponents = bad_exponents
        self.allow_U = allow_U
        self.k = 0
        self.names = names or [n for n, _ in NAME_POOL]
        self.max_depth = max_depth

    def signs(self, choices):
        return "".join(self.rng.choice("+-") for _ in range(self.rng.choice(choices)))

    def atom(self, d):
        r = self.rng.random()
        if r < 0.72 or d <= 0:
            return ["name", self.rng.choice(self.names)]
        if r < 0.80:
            self.k += 1
            # mostly a fresh name (no clash possible); sometimes a shared plain one, so that the same interaction can turn up
            # under two scalings, written in either factor order (must be rejected)
            nm = f"s{self.k}" if self.rng.random() < 0.8 else self.rng.choice([n for n in self.names if n.isidentifier()] or [f"s{self.k}"])
            return ["scaled", self.rng.choice(["2", "2.5", "0.5", "3", "10"]), nm]
        return ["paren", self.sumchain(d - 1)]

    def prod(self, d):
        if d <= 0 or self.rng.random() < 0.35:
            return self.atom(d)
        r = self.rng.random()
        if r < 0.18:
            base = ["paren", self.sumchain(d - 1, small=True)] if self.rng.random() < 0.8 else ["name", self.rng.choice(self.names)]
            r2 = self.rng.random()
            if r2 < 0.06 and self.bad_exponents:  # exponents outside the grammar: must be rejected, never silently reinterpreted
                return ["pow", self.rng.choice(["**", "^"]), base, self.rng.choice(["(1+2)", "(2+1)", "b", "2.0", "(0)", "00", "1.5", "(a)", "(2:1)", "(1+1)", "(1 + 1)", "(2+2)"])]
            return ["pow", self.rng.choice(["**", "^"]), base, self.rng.choice([1, 2, 2, 3, 3, 10 ** 12, 99999999999999999999]), "paren" if r2 < 0.2 else "plain"]
        op = self.rng.choice([":", ":", "*", "/", "%in%"])
        left = self.prod(d - 1)
        right = self.prod(d - 1)
        signs = ""
        if self.allow_U and self.rng.random() < 0.2:
            signs = self.signs([1, 2, 3])
        return ["bin", op, left, right, signs]

    def sumchain(self, d, small=False, top=False):
        n = self.rng.randint(1, 2 if small else 4)
        items = []
        for i in range(n):
            signs = self.signs([0, 0, 0, 1, 2, 4]) if i == 0 else self.signs([1, 1, 1, 2, 3, 4])
            r = self.rng.random()
            if top and r < 0.12:
                item = ["one"]
            elif top and r < 0.22:
                item = ["zero"]
            else:
                item = self.prod(d)
            items.append([signs, item])
        return items


def fix_structure(node):
    """Insert the parentheses needed for the rendering to denote this tree under the documented
    precedence (** > : > * / %in% > + -) and left associativity."""
    t = node[0]

    def wrap(n):
        return ["paren", [["", n]]]

    if t == "bin":
        op = node[1]
        left = fix_structure(node[2])
        right = fix_structure(node[3])
        if left[0] == "bin" and PREC[left[1]] < PREC[op]:
            left = wrap(left)
        if right[0] == "bin" and PREC[right[1]] <= PREC[op]:
            right = wrap(right)
        # k:name is itself a ':' product
        if left[0] == "scaled" and PREC[op] > 300:
            left = wrap(left)
        if right[0] == "scaled" and PREC[op] >= 300:
            right = wrap(right)
        return ["bin", op, left, right, node[4]]
    if t == "paren":
        return ["paren", [[s, fix_structure(i)] for s, i in node[1]]]
    if t == "pow":
        base = fix_structure(node[2])
        if base[0] not in ("paren", "name"):
            base = wrap(base)
        return ["pow", node[1], base, *node[3:]]
    return node


def fix_chain(chain):
    return [[s, fix_structure(i)] for s, i in chain]


def sp(rng):
    return rng.choice(["", "", " ", "  ", "\t"])


def render(node, rng):
    t = node[0]
    if t == "name":
        return node[1]
    if t == "one":
        return "1"
    if t == "zero":
        return "0"
    if t == "dot":
        return "."
    if t == "scaled":
        return f"{node[1]}{sp(rng)}:{sp(rng)}{node[2]}"
    if t == "paren":
        return "(" + sp(rng) + render_chain(node[1], rng) + sp(rng) + ")"
    if t == "pow":
        expo = str(node[3])
        if isinstance(node[3], int) and len(node) > 4 and node[4] == "paren":
            expo = "(" + sp(rng) + expo + sp(rng) + ")"
        return render(node[2], rng) + sp(rng) + node[1] + sp(rng) + expo
    if t == "bin":
        op = node[1]
        gap_l = " " if op == "%in%" and node[2][0] in ("name", "scaled", "one") else sp(rng)
        return render(node[2], rng) + gap_l + op + sp(rng) + sp(rng).join(node[4]) + sp(rng) + render(node[3], rng)
    raise ValueError(node)


def render_chain(chain, rng):
    out = ""
    for i, (signs, item) in enumerate(chain):
        out += (sp(rng) if i else "") + sp(rng).join(signs) + sp(rng) + render(item, rng)
    return out


def render_formula(ast, rng):
    s = ""
    if ast.get("lhs") is not None:
        s += render_chain(ast["lhs"], rng) + sp(rng) + "~" + sp(rng)
    elif ast.get("tilde"):
        s += "~" + sp(rng)
    s += (sp(rng) + "|" + sp(rng)).join(render_chain(p, rng) for p in ast["parts"])
    return s


def gen_algebra(rng: random.Random, tier: str) -> dict:
    allow_U = rng.random() < 0.2
    depth = rng.choice([1, 2, 2, 3, 3, 4] if tier == "quick" else [1, 2, 3, 3, 4, 5])
    g = Gen(rng, allow_U, depth)
    nparts = rng.choice([1, 1, 1, 2, 3])
    has_lhs = rng.random() < 0.3
    ast = {
        "lhs": fix_chain(g.sumchain(min(depth, 2))) if has_lhs else None,
        "tilde": (not has_lhs) and rng.random() < 0.1,
        "parts": [fix_chain(g.sumchain(depth, top=True)) for _ in range(nparts)],
    }
    r = rng.random()
    flags = ["TWOSIDED", "MULTIPART"] if r < 0.7 else rng.choice(FLAG_SUBSETS)
    return {
        "s": render_formula(ast, rng),
        "icpt": rng.random() < 0.65,
        "flags": flags,
        "ordering": rng.choice(["degree", "degree", "none", "sort"]),
        "ast": ast,
    }


# ---- '.' wildcard sub-monitor


def gen_dot(rng: random.Random, tier: str) -> dict:
    plain = ["a", "b", "c", "d", "e", "x1", "y", "z"]
    avail = rng.sample(plain, rng.randint(1, 7))
    if rng.random() < 0.3:
        avail.append("w w")
    g = Gen(rng, False, 2, names=plain[:6] + ["log(a)", "`w w`", "{b + c}"])
    has_lhs = rng.random() < 0.7
    lhs = fix_chain(g.sumchain(1, small=True)) if has_lhs else None
    nparts = rng.choice([1, 1, 2])
    parts = []
    for _ in range(nparts):
        chain = fix_chain(g.sumchain(1, small=True, top=True)) if rng.random() < 0.6 else []
        pos = rng.randint(0, len(chain))
        r = rng.random()
        if r < 0.7:
            dot_item = ["dot"]
        elif r < 0.85:
            dot_item = ["bin", ":", ["dot"], ["name", rng.choice(["a", "b"])], ""]
        else:
            dot_item = ["pow", "**", ["paren", [["", ["dot"]]]], 2]
        chain.insert(pos, ["" if pos == 0 else rng.choice(["+", "-", "+"]), dot_item])
        if pos == 0 and len(chain) > 1 and not chain[1][0]:
            chain[1][0] = "+"
        parts.append(chain)
    ast = {"lhs": lhs, "tilde": False, "parts": parts}
    no_ctx = rng.random() < 0.08
    return {
        "s": render_formula(ast, rng),
        "icpt": rng.random() < 0.6,
        "flags": ["TWOSIDED", "MULTIPART"],
        "ordering": rng.choice(["degree", "none"]),
        "ast": ast,
        "avail": None if no_ctx else avail,
    }


# ---- metamorphic identities and equivalent specification forms


def judge_identity(case) -> Outcome:
    from formulaic import Formula
    from formulaic.errors import FormulaParsingError
    from formulaic.parser import DefaultFormulaParser

    out = Outcome()
    out.sig = (case["kind"], case.get("shape"))
    parser = DefaultFormulaParser(include_intercept=case["icpt"])
    kw = {"_parser": parser, "_ordering": case.get("ordering", "degree")}
    try:
        if case["kind"] == "pair":
            res = []
            for side in ("a", "b"):
                try:
                    res.append(Formula(case[side], **kw))
                except FormulaParsingError as e:
                    res.append(("rejected", str(e)[:100]))
            a, b = res
            if isinstance(a, tuple) and isinstance(b, tuple):
                out.see("both_sides_rejected")
            elif isinstance(a, tuple) or isinstance(b, tuple):
                out.fail("c01.identity_broken", f"{case['a']!r} -> {a!r}  but  {case['b']!r} -> {b!r}")
            elif a != b or lib_structure(a)[0] != lib_structure(b)[0]:
                out.fail("c01.identity_broken", f"{case['a']!r} -> {a!r}  but  {case['b']!r} -> {b!r}")
        elif case["kind"] == "spec_forms":
            s = Formula(case["s"], **kw)
            ref, _ = lib_structure(s)
            nested = DefaultFormulaParser(include_intercept=False)
            kw2 = {"_parser": nested, "_nested_parser": nested, "_ordering": case.get("ordering", "degree")}
            forms = {}
            if case["lhs_terms"] is None and len(case["rhs_terms"]) == 1:
                forms["list"] = Formula(case["rhs_terms"][0], **kw2)
                forms["from_spec_list"] = Formula.from_spec(case["rhs_terms"][0], parser=nested, nested_parser=nested,
                                                            ordering=case.get("ordering", "degree"))
            elif case["lhs_terms"] is None:
                forms["tuple"] = Formula(tuple(case["rhs_terms"]), **kw2)
            else:
                rhs = case["rhs_terms"][0] if len(case["rhs_terms"]) == 1 else tuple(case["rhs_terms"])
                forms["keywords"] = Formula(lhs=case["lhs_terms"], rhs=rhs, **kw2)
                forms["from_spec_dict"] = Formula.from_spec({"lhs": case["lhs_terms"], "rhs": rhs}, parser=nested,
                                                            nested_parser=nested, ordering=case.get("ordering", "degree"))
            for name, f in forms.items():
                got, _ = lib_structure(f)
                if got != ref or f != s:
                    out.fail("c01.spec_forms_differ", f"{case['s']!r} -> {ref} but {name} form {case['lhs_terms']}/{case['rhs_terms']} -> {got}")
            out.see("spec_forms_compared", len(forms))
    except FormulaParsingError as e:
        out.fail("c01.identity_rejected", f"{case}: {str(e)[:120]}")
    except Exception as e:
        out.fail("c01.internal_exception", f"{case}: {type(e).__name__}: {str(e)[:160]}")
    return out


def term_str(t):
    return ":".join(f"`{f}`" if not f.replace("_", "a").replace(".", "a").isalnum() and not is_pyexpr(f) else wrap_py(f) for f in t)


def is_pyexpr(f):
    return "(" in f or " " in f and not f.replace(" ", "").isalnum()


def wrap_py(f):
    if "(" in f and not f.startswith("{"):
        return f
    if is_pyexpr(f):
        return "{" + f + "}"
    return f


def gen_identity(rng: random.Random, tier: str) -> dict:
    g = Gen(rng, False, 2)
    icpt = rng.random() < 0.7
    r = rng.random()

    def opnd():
        node = fix_structure(g.prod(rng.choice([0, 0, 1, 2])))
        if node[0] == "bin" or node[0] == "scaled":
            node = ["paren", [["", node]]]
        return node

    if r < 0.6:
        a, b, c = opnd(), opnd(), opnd()
        ra, rb, rc = render(a, rng), render(b, rng), render(c, rng)
        which = rng.choice(["star", "slash", "in", "caret", "pow2", "pow3", "star_assoc", "colon_comm_terms"])
        if which == "star":
            pair = (f"{ra} * {rb}", f"{ra} + {rb} + {ra}:{rb}")
        elif which == "slash":
            pair = (f"a / {rb}", f"a + a:{rb}")
            if rng.random() < 0.5:
                pair = (f"(a + b) / {rc}", f"a + b + a:b:{rc}")
        elif which == "in":
            pair = (f"{rb} %in% {ra}", f"{ra} / {rb}")
        elif which == "caret":
            n = rng.choice([1, 2, 3])
            pair = (f"({ra} + {rb})^{n}", f"({ra} + {rb})**{n}")
        elif which == "pow2":
            pair = ("(a + b + c)**2", "a + b + c + a:b + a:c + b:c")
            if rng.random() < 0.5:
                pair = (f"({ra} + {rb})**2", f"({ra} + {rb}):({ra} + {rb})")
        elif which == "pow3":
            pair = (f"({ra} + {rb} + {rc})**3", f"({ra} + {rb} + {rc}):({ra} + {rb} + {rc}):({ra} + {rb} + {rc})")
        elif which == "star_assoc":
            pair = (f"{ra} * {rb} * {rc}", f"({ra} * {rb}) * {rc}")
        else:
            pair = (f"{ra}:{rb} + {rb}:{ra}", f"{ra}:{rb}")
        lhs = rng.choice(["", "", "y ~ ", "y + z ~ "])
        return {"kind": "pair", "a": lhs + pair[0], "b": lhs + pair[1], "icpt": icpt, "shape": which,
                "ordering": rng.choice(["degree", "sort"])}
    # equivalent specification forms: string vs explicit term lists
    case = gen_algebra(rng, "quick")
    tries = 0
    while tries < 50:
        tries += 1
        case = gen_algebra(rng, "quick")
        case["flags"] = ["TWOSIDED", "MULTIPART"]
        if any(has_U(c) for c in ([case["ast"]["lhs"]] if case["ast"]["lhs"] else []) + case["ast"]["parts"]):
            continue
        try:
            exp = expected({**case, "ordering": "none"})
        except ExpectReject:
            continue
        break
    if isinstance(exp, dict) and "lhs" in exp:
        lhs_terms = [term_str(t) for t in exp["lhs"]]
        rhs = exp["rhs"]
    elif isinstance(exp, dict):
        lhs_terms = None
        rhs = exp["root"]
    else:
        lhs_terms = None
        rhs = exp
    rhs_terms = [[term_str(t) for t in p] for p in (rhs if isinstance(rhs, tuple) else [rhs])]
    return {"kind": "spec_forms", "s": case["s"], "icpt": case["icpt"], "lhs_terms": lhs_terms, "rhs_terms": rhs_terms,
            "ordering": rng.choice(["degree", "sort"]), "shape": (lhs_terms is not None, len(rhs_terms))}


# ---- exhaustive enumeration of small ASTs


def enum_small(tier: str):
    names = ["a", "b", "c"]
    max_ops = 2 if tier == "quick" else 3
    rng = random.Random(12345)

    def prods(nops):
        if nops == 0:
            for n in names:
                yield ["name", n]
            return
        for op in [":", "*", "/", "%in%"]:
            for k in range(nops):
                for left in prods(k):
                    for right in prods(nops - 1 - k):
                        yield ["bin", op, left, right, ""]
        if nops >= 1:
            for base in prods(nops - 1):
                yield ["pow", "**", ["paren", [["", base]]], 2]

    def chains(nops):
        # a chain of 1..3 items joined by +/-, optionally with a leading sign
        for nitems in (1, 2, 3):
            joins = nitems - 1
            if joins > nops:
                continue
            rest = nops - joins
            for split in itertools.product(range(rest + 1), repeat=nitems):
                if sum(split) != rest:
                    continue
                for items in itertools.product(*[list(prods(k)) for k in split]):
                    for signs in itertools.product("+-", repeat=joins):
                        yield [["" if i == 0 else signs[i - 1], it] for i, it in enumerate(items)]

    for nops in range(0, max_ops + 1):
        for chain in chains(nops):
            ast = {"lhs": None, "tilde": False, "parts": [fix_chain(chain)]}
            for icpt in (True, False):
                yield {"s": render_formula(ast, rng), "icpt": icpt, "flags": ["TWOSIDED", "MULTIPART"],
                       "ordering": "degree", "ast": ast}


PINNED_STRINGS = [
    # regressions for repaired defects F1, F12, F13, F15, F26 and documented examples
    ({"lhs": None, "tilde": False, "parts": [[["", ["bin", ":", ["name", "a"], ["name", "b"], "--"]]]]}, "a:--b", True),
    ({"lhs": None, "tilde": False, "parts": [[["", ["bin", "*", ["name", "a"], ["name", "b"], "++"]]]]}, "a*++b", True),
    ({"lhs": [["", ["name", "a"]]], "tilde": False, "parts": [[["--", ["name", "b"]]]]}, "a ~ --b", False),
    ({"lhs": None, "tilde": True, "parts": [[["-", ["zero"]]]]}, "~ -0", False),
    ({"lhs": [["", ["name", "y"]]], "tilde": False, "parts": [[["-", ["zero"]], ["+", ["name", "a"]]]]}, "y ~ -0 + a", False),
    ({"lhs": None, "tilde": False, "parts": [[["", ["bin", "/", ["paren", [["", ["name", "a"]], ["-", ["name", "a"]]]], ["name", "b"], ""]]]]}, "(a-a)/b", True),
    ({"lhs": None, "tilde": False, "parts": [[["", ["name", "a"]]], [["++", ["name", "b"]]]]}, "a|++b", True),
]
PINNED = [("algebra", {"s": s, "icpt": icpt, "flags": ["TWOSIDED", "MULTIPART"], "ordering": "degree", "ast": ast})
          for ast, s, icpt in PINNED_STRINGS]

SUBS = {
    "algebra": Sub(judge=judge_algebra, gen=gen_algebra, quick=24000, thorough=1_200_000, min_decided=1000),
    "dot": Sub(judge=judge_algebra, gen=gen_dot, quick=3000, thorough=100_000, min_decided=200),
    "identity": Sub(judge=judge_identity, gen=gen_identity, quick=3000, thorough=100_000, min_decided=200),
    "small_exhaustive": Sub(judge=judge_algebra, enum=enum_small, min_decided=500),
}
