"""C16 - linear-constraint specifications compile to the affine map they express."""

from __future__ import annotations

import random

import numpy as np

from ..core import Outcome, Sub

ID = "C16"
DESIGN_REF = "DESIGN.md section 4 / C16"
TECHNIQUE = "runtime monitoring: affine-map monitor - own evaluator of the generated expression trees at the origin, the n unit vectors and random points versus the returned (A, b)"
LEVEL_TEXT = (
    "Constraint specifications are generated as expression trees (so their meaning is known), rendered with random spacing and "
    "minimal parentheses in string/list/dict form and compiled by the real LinearConstraints.from_spec / "
    "ModelSpec.get_linear_constraints; because the compiled object is an affine map, agreement of A.x-b with my evaluator at "
    "n+1 affinely independent points (plus random points) decides each specification completely. Non-linear specifications "
    "must be rejected. Held-on-observed over thousands of specifications."
)
LEVEL_NOTE = "trusts: my 15-line expression evaluator and renderer; numpy"
RULE = (
    "random trees over 7 column names (incl. backtick-quoted model-matrix labels), numeric literals, + - * / (products/quotients "
    "kept linear in the positive class), unary signs at expression starts or parenthesised, 1-3 constraints, optional '=', forms "
    "str/list/dict/model-spec; negative class: deliberately non-linear trees. distinct = (tree shapes with leaves abstracted, form)"
)
ASSUMPTIONS = ["within one constraint the resolver gives unary signs the precedence of binary + and -: '-a*2' means -(a*2), which is the same affine map"]

NAMES = ["x", "y", "z", "w w", "x[T.a]", "a:b", "C(A)[T.u]"]
NUMS = [0, 1, 2, 3, 0.5, 2.5, 10, 1.25]
PREC = {"add": 1, "sub": 1, "mul": 2, "div": 2}
SYM = {"add": "+", "sub": "-", "mul": "*", "div": "/"}


def ref(n):
    return n if n.isidentifier() else f"`{n}`"


def ev(e, x):
    t = e[0]
    if t == "var":
        return x[e[1]]
    if t == "num":
        return float(e[1])
    if t == "neg":
        return -ev(e[1], x)
    if t == "pos":
        return ev(e[1], x)
    a, b = ev(e[1], x), ev(e[2], x)
    return a + b if t == "add" else a - b if t == "sub" else a * b if t == "mul" else a / b


class G:
    def __init__(self, rng):
        self.rng = rng

    def gen(self, d):
        rng = self.rng
        if d <= 0 or rng.random() < 0.3:
            return ["var", rng.randrange(len(NAMES))] if rng.random() < 0.6 else ["num", rng.choice(NUMS)]
        op = rng.choice(["add", "sub", "mul", "div", "neg", "pos", "add", "sub"])
        if op in ("neg", "pos"):
            return [op, self.gen(d - 1)]
        if op == "mul":
            a, b = self.gen(d - 1), self.const(d - 1)
            return ["mul", a, b] if rng.random() < 0.5 else ["mul", b, a]
        if op == "div":
            return ["div", self.gen(d - 1), self.const_nz(d - 1)]
        return [op, self.gen(d - 1), self.gen(d - 1)]

    def const(self, d):
        rng = self.rng
        if d <= 0 or rng.random() < 0.5:
            return ["num", rng.choice(NUMS)]
        op = rng.choice(["add", "sub", "mul", "neg"])
        if op == "neg":
            return ["neg", self.const(d - 1)]
        return [op, self.const(d - 1), self.const(d - 1)]

    def const_nz(self, d):
        for _ in range(20):
            c = self.const(d)
            if abs(ev(c, None)) > 1e-9:
                return c
        return ["num", 2]

    def nonlinear(self, d):
        rng = self.rng
        kind = rng.choice(["vv", "div_v", "sq", "deep"])
        v = lambda: ["var", rng.randrange(len(NAMES))]  # noqa: E731
        if kind == "vv":
            core = ["mul", v(), v()]
        elif kind == "div_v":
            core = ["div", self.gen(1), ["add", v(), ["num", 1]]]
        elif kind == "sq":
            a = ["add", v(), ["num", rng.choice([1, 2])]]
            core = ["mul", a, a]
        else:
            core = ["mul", ["add", v(), self.const(1)], ["sub", v(), self.const(1)]]
        return ["add", core, self.gen(d - 1)] if rng.random() < 0.5 else core

    def sp(self):
        return self.rng.choice(["", " ", "  "])

    def render(self, e, parent=None, right=False, lead=True):
        """lead: this expression starts at a position where a unary sign is lexically unambiguous."""
        t = e[0]
        if t == "var":
            return ref(NAMES[e[1]])
        if t == "num":
            return str(e[1]) if isinstance(e[1], int) else repr(e[1])
        if t in ("neg", "pos"):
            sign = "-" if t == "neg" else "+"
            inner = self.render(e[1], "un", False, lead=False)
            if parent in (None, "add", "sub") and (lead or right or parent is None) and self.rng.random() < 0.7:
                return sign + self.sp() + inner  # bare sign: at the start, after '=' / ',' or directly after a binary + or -
            if parent in ("mul", "div") and right and self.rng.random() < 0.2:
                self.sign_after_mul = True  # 'x * -2': rejected by the library (finding K7)
                return sign + self.sp() + inner
            return "(" + sign + self.sp() + inner + ")"
        s = self.render(e[1], t, False, lead=lead) + self.sp() + SYM[t] + self.sp() + self.render(e[2], t, True, lead=False)
        if parent == "un" or (parent in PREC and (PREC[t] < PREC[parent] or (PREC[t] == PREC[parent] and right))):
            s = "(" + self.sp() + self.render(e[1], t, False, lead=True) + self.sp() + SYM[t] + self.sp() + self.render(e[2], t, True, lead=False) + self.sp() + ")"
        return s


def shape(e):
    t = e[0]
    if t in ("var", "num"):
        return t[0]
    return (t,) + tuple(shape(c) for c in e[1:])


def gen_case(rng: random.Random, tier: str) -> dict:
    g = G(rng)
    ncon = rng.randint(1, 3)
    cons = []
    for _ in range(ncon):
        left = g.gen(rng.randint(1, 4))
        right = g.gen(rng.randint(0, 3)) if rng.random() < 0.6 else None
        cons.append([left, right])
    # a bare leading sign is only lexically safe at the very start of the specification or after '(' ('=-' and ',-'
    # are single operator tokens for this resolver, like 'x*-2')
    g.sign_after_mul = False
    strs = [g.render(left, lead=True) + ((g.sp() + "=" + g.sp() + g.render(right, lead=True)) if right is not None else "")
            for i, (left, right) in enumerate(cons)]
    form = rng.choice(["str", "list", "dict", "spec"])
    vals = [0] * ncon
    if form == "dict":
        vals = [rng.choice([0, 1, -2.5, 3]) for _ in cons]
        if len(set(strs)) < len(strs):
            form = "list"
            vals = [0] * ncon
    return {"cons": cons, "strs": strs, "form": form, "vals": vals, "sep": g.sp() + "," + g.sp(), "sign_after_mul": g.sign_after_mul}


def gen_nonlinear(rng: random.Random, tier: str) -> dict:
    g = G(rng)
    e = g.nonlinear(rng.randint(1, 3))
    right = g.gen(1) if rng.random() < 0.4 else None
    s = g.render(e) + ((" = " + g.render(right, lead=False)) if right is not None else "")
    return {"cons": [[e, right]], "strs": [s], "form": rng.choice(["str", "list", "dict"]), "vals": [0], "sep": ","}


def compile_spec(case):
    from formulaic.utils.constraints import LinearConstraints

    form = case["form"]
    if form == "str":
        return LinearConstraints.from_spec(case["sep"].join(case["strs"]), NAMES)
    if form == "list":
        return LinearConstraints.from_spec(list(case["strs"]), NAMES)
    if form == "dict":
        return LinearConstraints.from_spec(dict(zip(case["strs"], case["vals"])), NAMES)
    # through a real model spec whose column names are NAMES
    import pandas as pd
    from formulaic import model_matrix

    df = pd.DataFrame({"x": [1.0, 2.0, 3.0], "y": [2.0, 1.0, 0.0], "z": [0.0, 1.0, 5.0], "w w": [1.0, 1.0, 2.0],
                       "x[T.a]": [0.0, 1.0, 0.0], "a:b": [3.0, 1.0, 2.0], "C(A)[T.u]": [1.0, 0.0, 0.0]})
    mm = model_matrix("0 + x + y + z + `w w` + `x[T.a]` + `a:b` + `C(A)[T.u]`", df, context={})
    assert list(mm.model_spec.column_names) == NAMES
    return mm.model_spec.get_linear_constraints(case["sep"].join(case["strs"]))


def judge(case) -> Outcome:
    out = Outcome()
    out.sig = (tuple((shape(l), shape(r) if r is not None else None) for l, r in case["cons"]), case["form"])
    try:
        lc = compile_spec(case)
    except Exception as e:  # noqa: BLE001
        import re

        msg = str(e)
        if case.get("sign_after_mul") and type(e).__name__ == "FormulaSyntaxError" and re.search(r"Operator `[*/][+\-]+` has insuffient arguments", msg):
            out.fail("c16.sign_after_mul_rejected", f"{case['form']} {case['strs']}: a sign directly after * or / is rejected: {msg[:80]}")
        else:
            out.fail("c16.linear_spec_rejected", f"{case['form']} {case['strs']}: {type(e).__name__}: {msg[:200]}")
        return out
    A = np.asarray(lc.constraint_matrix, float)
    b = np.asarray(lc.constraint_values, float)
    ncon = len(case["cons"])
    if A.shape != (ncon, len(NAMES)) or b.shape != (ncon,):
        out.fail("c16.shape", f"{case['strs']}: A{A.shape} b{b.shape} for {ncon} constraints")
        return out
    if list(lc.variable_names) != NAMES:
        out.fail("c16.variable_names", f"{lc.variable_names}")
    rng = random.Random(repr(case["strs"]))
    pts = [np.zeros(len(NAMES))] + list(np.eye(len(NAMES))) + [np.array([rng.uniform(-3, 3) for _ in NAMES]) for _ in range(2)]
    for x in pts:
        for i, (left, right) in enumerate(case["cons"]):
            expv = ev(left, x) - (ev(right, x) if right is not None else 0.0) - case["vals"][i]
            got = float(A[i] @ x - b[i])
            if not np.isclose(got, expv, rtol=1e-9, atol=1e-9):
                out.fail("c16.affine_map", f"{case['form']} {case['strs']} vals={case['vals']}: row {i} gives {got} at x={x.tolist()} expected {expv}; A={A.tolist()} b={b.tolist()}")
                return out
    out.see("points_checked", len(pts) * ncon)
    return out


def judge_nonlinear(case) -> Outcome:
    out = Outcome()
    out.sig = ("nl", shape(case["cons"][0][0]))
    # the generated tree must really be non-affine (second difference non-zero somewhere), else the oracle is silent
    left, right = case["cons"][0]
    rng = random.Random(repr(case["strs"]))
    nonaffine = False
    for _ in range(6):
        x = np.array([rng.uniform(1, 3) for _ in NAMES])
        h = np.array([rng.uniform(0.5, 1.5) for _ in NAMES])
        try:
            f = lambda p: ev(left, p) - (ev(right, p) if right is not None else 0.0)  # noqa: E731
            if abs(f(x + h) - 2 * f(x) + f(x - h)) > 1e-7:
                nonaffine = True
        except ZeroDivisionError:
            pass
    if not nonaffine:
        out.decided = False
        return out
    try:
        lc = compile_spec(case)
    except Exception:  # noqa: BLE001 - "specifications that are not linear in the columns are rejected"
        out.see("nonlinear_rejected")
        return out
    out.fail("c16.nonlinear_accepted", f"{case['strs']} compiled to A={np.asarray(lc.constraint_matrix).tolist()} b={np.asarray(lc.constraint_values).tolist()}")
    return out


PINNED = [
    ("affine", {"cons": [[["add", ["neg", ["var", 0]], ["var", 1]], ["num", 3]]], "strs": ["-x + y = 3"], "form": "str", "vals": [0], "sep": ","}),
    ("affine", {"cons": [[["sub", ["neg", ["mul", ["num", 2], ["var", 0]]], ["var", 1]], None]], "strs": ["-2*x - y"], "form": "dict", "vals": [3], "sep": ","}),
]
SUBS = {
    "affine": Sub(judge=judge, gen=gen_case, quick=12000, thorough=300_000, min_decided=500),
    "nonlinear": Sub(judge=judge_nonlinear, gen=gen_nonlinear, quick=600, thorough=30_000, min_decided=100),
}
