"""C06 - missing-data policy removes exactly the right rows, by position, and reports it."""

from __future__ import annotations

import random

import numpy as np

from ..core import Outcome, Sub
from ..data import col_values, colnames, dense, is_null, make_frame, nrows, quiet, same

ID = "C06"
DESIGN_REF = "DESIGN.md section 4 / C06"
TECHNIQUE = "runtime monitoring: row-conservation monitor (in = out + dropped) at the API boundary: independently computed kept-row positions vs output rows/index/values/caller drop set, per policy, entry point, output, materializer and index kind"
LEVEL_TEXT = (
    "For random frames with nulls of every flavour (NaN, None, pd.NA, nullable Int64/boolean, NaN in categoricals/text) under "
    "default, string, non-unique, unsorted and multi-level indexes, random formulas (lookups, C(), transforms, splines, hashed, "
    "multi-column Python factors with per-column nulls, empty and intercept-only formulas, structured formulas), caller drop sets, "
    "all five entry points, three outputs and both materializers, the positions of the rows that must survive are computed from "
    "the data alone and compared with what the real code returns: row count and order, index labels, values (= the same spec on "
    "the pre-filtered data), and the caller's drop set afterwards; raise raises iff a referenced value is null; ignore keeps all."
)
LEVEL_NOTE = "trusts: my null predicate over the JSON frame description; pandas iloc for the pre-filtered reference"
RULE = (
    "random (n in 1..15, null probability per cell, index kind, formula from a catalogue of 24 shapes, policy, caller set, output, "
    "entry point, materializer); non-trivial = at least one row dropped or a caller set given; distinct = (formula, index kind, "
    "policy, output, entry, materializer, caller-set kind, null pattern class)"
)
ASSUMPTIONS = [
    "hashed() stringifies its input, so nulls of its argument are not nulls of the evaluated factor",
    "mean-based transforms are applied to null-free columns only (a NaN mean legitimately nulls every row); poly/bs need >= 5 distinct non-null values",
    "raise combined with a caller drop set is judged by the property's wording: an error iff some evaluated factor has a null in "
    "any row, listed by the caller or not (the code does this; one sentence of the missing-data guide reads otherwise)",
]

FORMS_RAW = {  # formula -> referenced columns (those whose nulls matter)
    "x": ["x"], "x + A": ["x", "A"], "C(A) + y": ["A", "y"], "A:x": ["A", "x"], "S + x": ["S", "x"], "log(p) + x:y": ["p", "x", "y"],
    "poly(y, 2)": ["y"], "bs(p, df=3)": ["p"], "hashed(S, levels=4) + x": ["x"], "{x + y}": ["x", "y"], "I(x*2):A": ["x", "A"],
    "1": [], "0": [], "A:S": ["A", "S"], "C(S, contr.sum):y": ["S", "y"], "y ~ x": ["y", "x"], "y ~ x | A": ["y", "x", "A"],
    "x | S": ["x", "S"], "x:y:p": ["x", "y", "p"], "center(q) + x": ["q", "x"], "{np.stack([x, y], axis=1)}": ["x", "y"],
    "{{'u': x, 'v': p}}": ["x", "p"], "n + x": ["n", "x"], "b:x": ["b", "x"], "C(n) + y": ["n", "y"], "0 + x | 0": ["x"], "y ~ 0": ["y"],
    "scale(q):A + n": ["q", "A", "n"], "cr(p, df=3) + b": ["p", "b"], "T + x": ["T", "x"],
    # factors whose values come from the evaluation context (plain list / numpy array / pandas Series), rows dropped because of x
    "zl + x": ["x"], "za:x + A": ["x", "A"], "zs + x + y": ["x", "y"], "y ~ zl + x": ["y", "x"],
    # text from the context: a numpy string array (no nulls) and an object array whose every 4th entry (1, 5, ..) is None
    "C(zt) + x": ["x"], "C(zo):x + y": ["x", "y"],
    # a bare name resolving to a context vector that holds the only nulls (positions 2, 6, ..)
    "zn + x": ["x"], "zn": [], "y ~ zn:A": ["y", "A"],
    # a float vector from the context holding +inf / -inf (positions 3, 7, ..): infinite is not missing
    "zi + x": ["x"], "zi + A": ["A"], "y ~ zi": ["y"], "{np.stack([zi, zi * 2], axis=1)} + x": ["x"],
    # a data column called `index` (what reset_index() leaves behind)
    "index + x": ["index", "x"], "A:index": ["A", "index"], "y ~ index | S": ["y", "index", "S"],
}
CTX_FORMS = {"zl + x": "zl", "za:x + A": "za", "zs + x + y": "zs", "y ~ zl + x": "zl"}
FORMS = FORMS_RAW
NEEDS_DISTINCT = {"poly(y, 2)": "y", "bs(p, df=3)": "p", "cr(p, df=3) + b": "p"}


def gen_case(rng: random.Random, tier: str) -> dict:
    while True:
        n = rng.choice([1, 2, 3, 6, 10, 15])
        pnull = rng.choice([0.0, 0.1, 0.15, 0.3])

        def nul(v):
            return None if rng.random() < pnull else v

        cols = [
            ["x", {"kind": "num", "dtype": "float64", "values": [nul(round(rng.gauss(0, 1), 5)) for _ in range(n)]}],
            ["y", {"kind": "num", "dtype": "float64", "values": [nul(round(rng.gauss(0, 1), 5)) for _ in range(n)]}],
            ["p", {"kind": "num", "dtype": "float64", "values": [nul(round(rng.uniform(1, 2), 5)) for _ in range(n)]}],
            ["q", {"kind": "num", "dtype": "float64", "values": [round(rng.gauss(0, 1), 5) for _ in range(n)]}],
            ["index", {"kind": "num", "dtype": "float64", "values": [nul(float(i)) for i in range(n)]}],
            ["n", {"kind": "num", "dtype": rng.choice(["Int64", "Int64", "float64"]), "values": [nul(rng.randint(0, 3)) for _ in range(n)]}],
            ["b", {"kind": "bool", "dtype": "boolean", "values": [nul(rng.random() < 0.5) for _ in range(n)]}],
            ["A", {"kind": "cat", "categories": ["u", "v", "w"], "values": [nul(rng.choice("uvw")) for _ in range(n)]}],
            ["S", {"kind": "text", "dtype": rng.choice(["object", "str"]), "values": [nul(rng.choice(["k", "l", "m"])) for _ in range(n)]}],
            ["T", {"kind": "text", "dtype": "string[python]", "values": [nul(rng.choice(["k", "l"])) for _ in range(n)]}],
        ]
        ixk = rng.choice(["default", "str", "nonunique", "unsorted", "multi"])
        index = None
        if ixk == "str":
            index = {"kind": "labels", "values": [f"r{i}" for i in range(n)]}
        elif ixk == "nonunique":
            index = {"kind": "labels", "values": [rng.choice("ab") for _ in range(n)]}
        elif ixk == "unsorted":
            index = {"kind": "labels", "values": rng.sample(range(100), n)}
        elif ixk == "multi":
            index = {"kind": "multi", "values": [[rng.choice("ab"), i % 3] for i in range(n)]}
        frame = {"cols": cols, "index": index}
        f = rng.choice(list(FORMS))
        if f in NEEDS_DISTINCT and len({v for v in col_values(frame, NEEDS_DISTINCT[f]) if v is not None}) < 5:
            continue
        if "scale(" in f and len(set(col_values(frame, "q"))) < 3:
            continue  # the scaled factor itself would be null everywhere (0/0)
        na = rng.choice(["drop", "drop", "drop", "raise", "ignore"])
        if na == "ignore" and any(c in FORMS[f] and any(v is None for v in col_values(frame, c)) for c in ("b", "n")):
            continue  # pd.NA of nullable integer/boolean columns has no numeric representation to keep
        caller = sorted(rng.sample(range(n), rng.randint(0, min(3, n)))) if rng.random() < 0.5 else None
        if na == "raise" and caller is not None and rng.random() < 0.6:
            # the caller lists exactly (or a superset of) the rows holding nulls: by the property's wording the
            # raise policy still errors, because an evaluated factor has a null
            nulls = sorted({i for i in range(n) for c in FORMS[f] if col_values(frame, c)[i] is None} | ctx_nulls(f, n))
            caller = sorted(set(nulls) | (set(caller) if rng.random() < 0.5 else set()))
        mat = rng.choice(["pandas", "pandas", "pandas", "narwhals"])
        entry = rng.choice(["mm", "formula", "spec", "spec_over", "mat", "mat_again"])
        if mat == "narwhals" and entry in ("mat", "mat_again"):
            entry = "mm"
        return {"frame": frame, "formula": f, "na": na, "caller": caller, "output": rng.choice(["pandas", "numpy", "sparse"]),
                "entry": entry, "mat": mat, "ixk": ixk}


def ctx_nulls(f, n):
    return ({i for i in range(n) if i % 4 == 1} if "zo" in f else set()) | ({i for i in range(n) if i % 4 == 2} if "zn" in f else set())


def make_ctx(case):
    import pandas as pd

    n = nrows(case["frame"])
    z = [100.0 + i for i in range(n)]
    return {"zl": list(z), "za": np.array(z), "zs": pd.Series(z), "zt": np.array(["k", "l", "m"] * n)[:n],
            "zo": np.array([None if i % 4 == 1 else "pq"[i % 2] for i in range(n)], dtype=object),
            "zn": np.array([np.nan if i % 4 == 2 else 1.0 + i for i in range(n)]),
            "zi": np.array([(np.inf if i % 8 == 3 else -np.inf) if i % 4 == 3 else 0.5 * i for i in range(n)])}


def run(case, df, s):
    from formulaic import Formula, ModelSpec, model_matrix
    from formulaic.materializers import PandasMaterializer

    f, entry = case["formula"], case["entry"]
    kw = {"na_action": case["na"], "output": case["output"]}
    if case["mat"] == "narwhals":
        kw["materializer"] = "narwhals"
    ctx = make_ctx(case)
    if entry == "mm":
        return model_matrix(f, df, drop_rows=s, context=ctx, **kw)
    if entry == "formula":
        return Formula(f).get_model_matrix(df, drop_rows=s, context=ctx, **kw)
    if entry == "spec":
        return ModelSpec.from_spec(Formula(f), **kw).get_model_matrix(df, drop_rows=s, context=ctx)
    if entry == "spec_over":
        return ModelSpec.from_spec(Formula(f)).get_model_matrix(df, drop_rows=s, context=ctx, **kw)
    if entry == "mat_again":  # the materializer object has served another request (other policy, other drop set) before
        m = PandasMaterializer(df, context=ctx)
        try:
            m.get_model_matrix(f, drop_rows={0} if len(df) > 1 else set(), na_action="ignore" if case["na"] != "ignore" else "drop",
                               output="numpy" if case["output"] != "numpy" else "pandas")
        except Exception:  # noqa: BLE001  (the first request's own outcome is not the subject here)
            pass
        return m.get_model_matrix(f, drop_rows=s, **kw)
    return PandasMaterializer(df, context=ctx).get_model_matrix(f, drop_rows=s, **kw)


def judge(case) -> Outcome:
    out = Outcome()
    frame, f, na = case["frame"], case["formula"], case["na"]
    n = nrows(frame)
    cols = FORMS[f]
    nullrows = sorted({i for i in range(n) for c in cols if is_null(col_values(frame, c)[i])} | ctx_nulls(f, n))
    caller = case["caller"]
    df = make_frame(frame)
    s = set(caller) if caller is not None else None
    npat = "none" if not nullrows else "all" if len(nullrows) == n else "some"
    out.sig = (f, case["ixk"], na, case["output"], case["entry"], case["mat"], None if caller is None else len(caller) > 0, npat)
    tag = f"{f!r} n={n} index={case['ixk']} na={na} out={case['output']} entry={case['entry']} mat={case['mat']} nullrows={nullrows} caller={caller}"
    exc = None
    try:
        with quiet():
            res = run(case, df, s)
    except Exception as e:  # noqa: BLE001
        exc = e
    if na == "raise":
        should = len(nullrows) > 0
        if should and exc is None:
            out.fail("c06.raise_policy_silent", f"{tag}: nulls present but no error")
        elif not should and exc is not None:
            out.fail("c06.raise_policy_spurious", f"{tag}: no referenced null but raised {type(exc).__name__}: {str(exc)[:150]}")
        return out
    if exc is not None:
        out.fail("c06.materialization_raised", f"{tag}: {type(exc).__name__}: {str(exc)[:200]}")
        return out
    dropped = set(caller or ())
    if na == "drop":
        dropped |= set(nullrows)
    kept = [i for i in range(n) if i not in dropped]
    if not dropped:
        out.sig = None  # trivial
    parts = list(res._flatten()) if hasattr(res, "_flatten") else [res]
    for p in parts:
        try:
            M = dense(p)
        except TypeError as e:
            out.fail("c06.non_numeric", f"{tag}: {e}")
            return out
        if M.shape[0] != len(kept):
            out.fail("c06.row_count", f"{tag}: part with columns {colnames(p)[:3]} has {M.shape[0]} rows, expected {len(kept)} (kept positions {kept})")
            return out
        if case["output"] == "pandas":
            got_ix, exp_ix = list(p.index), list(df.index[kept])
            if got_ix != exp_ix:
                if case["mat"] == "narwhals" and got_ix == list(range(len(kept))):
                    # the narwhals materializer rebuilds the frame from bare columns (finding K6); rows and values are still checked
                    out.fail("c06.narwhals_drops_index_labels", f"{tag}: pandas output through the narwhals materializer has index {got_ix[:4]}.., the data's labels are {exp_ix[:4]}..")
                else:
                    out.fail("c06.index_labels", f"{tag}: index {got_ix} expected {exp_ix}")
                    return out
        if na == "drop" and np.isnan(M).any():
            out.fail("c06.null_survived", f"{tag}: NaN in the output although nulls are dropped")
            return out
    if s is not None:
        got = {int(i) for i in s}
        if got != dropped:
            out.fail("c06.drop_set", f"{tag}: caller's drop set afterwards {sorted(got)} != positions removed {sorted(dropped)}")
            return out
    if f in CTX_FORMS:  # the context-valued factor must hold exactly the kept positions' values
        nm = CTX_FORMS[f]
        p = parts[-1]
        names = colnames(p)
        j = next((k for k, c in enumerate(names) if c == nm or c.startswith(nm + ":")), None)
        if j is None:
            out.fail("c06.context_column_missing", f"{tag}: no column for {nm}: {names}")
        else:
            exp = np.array([100.0 + i for i in kept])
            if names[j] != nm:
                exp = exp * np.array([col_values(frame, "x")[i] if col_values(frame, "x")[i] is not None else np.nan for i in kept])
            if not same(dense(p)[:, j], exp):
                out.fail("c06.context_values_misaligned", f"{tag}: column {names[j]!r} = {dense(p)[:, j].tolist()} expected {exp.tolist()} (values of the kept positions {kept})")
        out.see("context_factor_checks")
        return out
    # values: the same specs on the pre-filtered data give the same matrices
    if kept and na == "drop" and "zt" not in f and "zo" not in f and "zn" not in f and "zi" not in f:
        try:
            with quiet():
                ref = res.model_spec.get_model_matrix(df.iloc[kept])
            rparts = list(ref._flatten()) if hasattr(ref, "_flatten") else [ref]
            for p, r in zip(parts, rparts):
                if colnames(p) != colnames(r) or not same(dense(p), dense(r)):
                    out.fail("c06.values", f"{tag}: rows differ from the same spec applied to data.iloc[kept]")
                    return out
            out.see("value_checks")
        except Exception as e:  # noqa: BLE001
            out.fail("c06.reference_raised", f"{tag}: spec on pre-filtered data: {type(e).__name__}: {str(e)[:150]}")
    out.see("rows_dropped", len(dropped))
    return out


def _f(vals, index=None, **extra):
    cols = [["x", {"kind": "num", "dtype": "float64", "values": vals}], ["y", {"kind": "num", "dtype": "float64", "values": [1.0] * len(vals)}]]
    for k, v in extra.items():
        cols.append([k, v])
    return {"cols": cols, "index": index}


def _c(frame, formula, **kw):
    base = {"frame": frame, "formula": formula, "na": "drop", "caller": None, "output": "pandas", "entry": "mm", "mat": "pandas", "ixk": "pinned"}
    base.update(kw)
    return ("rows", base)


PINNED = [
    _c(_f([1.0, None, 3.0, 4.0], {"kind": "labels", "values": [0, 0, 1, 1]}), "x"),
    _c(_f([1.0, None, 3.0, 4.0]), "y ~ x", caller=[0]),
    _c(_f([1.0, None, 3.0, 4.0]), "x", caller=[0], entry="spec_over", output="numpy"),
    _c(_f([1.0, None, 3.0, 4.0], S={"kind": "text", "dtype": "object", "values": ["p", "q", "r", "s"]}), "hashed(S, levels=4) + x"),
    _c(_f([1.0, None, 3.0, 4.0]), "0", caller=[1], output="numpy"),
    _c(_f([1.0, 2.0, 3.0, 4.0], n={"kind": "num", "dtype": "Int64", "values": [1, None, 3, 2]}), "n + x"),
]
SUBS = {"rows": Sub(judge=judge, gen=gen_case, quick=8000, thorough=300_000, min_decided=500)}
