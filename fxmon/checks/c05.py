"""C05 - output types, entry points and materializers agree with one another."""

from __future__ import annotations

import random

import numpy as np

from .. import gen
from ..core import Outcome, Sub
from ..data import colnames, dense, make_frame, quiet, same

ID = "C05"
DESIGN_REF = "DESIGN.md section 4 / C05"
TECHNIQUE = "runtime monitoring: differential monitor - one (formula, data, options) executed through every output type x entry point x materializer (pandas, narwhals on pandas, narwhals on pyarrow); all dense renderings and column names must agree pairwise"
LEVEL_TEXT = (
    "Each generated case is executed through ~20 real code paths (3 outputs x 4 entry points on the pandas materializer, narwhals "
    "on the same pandas frame with 4 outputs, narwhals on a pyarrow table with 4 outputs, with and without nulls/drop policy) and "
    "every result is rendered dense and compared with the pandas/numpy reference: same shape, same column names from the "
    "attached spec, NaN-aware equal values; a caller-supplied drop set is passed on every path, and one materializer object is made to "
    "serve two different requests. Held-on-observed over thousands of cases x paths."
)
LEVEL_NOTE = "trusts: numpy allclose(rtol 1e-9); pyarrow/narwhals conversions of the input data themselves"
RULE = (
    "C02's term generator (interactions, literal scalings, Python factors, C()) plus stateful transforms, structured formulas, "
    "nulls, integer/unsigned/float32/bool columns; distinct = (term shapes by factor kind, scalings, transforms used, null pattern, "
    "structured, rank mode)"
)
ASSUMPTIONS = [
    "for the pyarrow path categorical columns are declared with sorted categories: narwhals converts an arrow dictionary column to text, so a non-alphabetical dictionary order is not available to formulaic at all",
    "narwhals has no index concept: only values and names are compared, not index labels",
]

EXTRA_NUM = ["center({v})", "scale({v})", "poly({v}, 2)", "bs({v}, df=4)", "I({v}**2)"]


def gen_case(rng: random.Random, tier: str) -> dict:
    n = rng.choice([3, 5, 8, 17, 40])
    cats = rng.sample(["A", "B", "S"], rng.randint(1, 2))
    nums = rng.sample(["x", "y", "p"], rng.randint(1, 3))
    arrow = rng.random() < 0.5
    frame = gen.rand_frame(rng, n, cats=cats, nums=nums, max_levels=3, index=rng.choice(["default", "default", "labels", "ints", "perm"]))
    for name, c in frame["cols"]:
        if c["kind"] == "cat" and arrow:
            c["categories"] = sorted(c["categories"])
            c["ordered"] = False
    # extra dtypes
    extra = []
    if rng.random() < 0.5:
        extra.append(["i", {"kind": "num", "dtype": rng.choice(["int64", "int32", "int8", "uint8", "uint16", "float32", "float16"]), "values": [float(rng.randint(0, 9)) for _ in range(n)]}])
    if rng.random() < 0.4:
        extra.append(["bo", {"kind": "bool", "dtype": "bool", "values": [rng.random() < 0.5 for _ in range(n)]}])
    if rng.random() < 0.25:  # a data column called `index` (what reset_index() leaves behind)
        extra.append(["index", {"kind": "num", "dtype": "float64", "values": [float(i) for i in range(n)]}])
    frame["cols"] += extra
    nums_all = nums + [e[0] for e in extra]
    terms, factors = gen.rand_terms(rng, frame, cats=cats, nums=nums, max_terms=4, max_order=3)
    icpt = rng.random() < 0.7
    # categorical factors under every built-in coding and option (all paths must agree whatever the coding is)
    for fa in factors.values():
        if fa["kind"] == "cat" and rng.random() < 0.35:
            fa["text"] = "C({v}, {c})".format(v=fa["var"], c=rng.choice([
                "contr.sum", "contr.helmert", "contr.helmert(reverse=False)", "contr.helmert(scale=True)", "contr.diff", "contr.diff(backward=False)",
                "contr.poly", "contr.SAS", "contr.treatment", "contr.sum()", "contr.SAS()"]))
    f = gen.formula_text(terms, factors, icpt, rng)
    used_t = []
    for e in extra:
        f += f" + {e[0]}"
    if not icpt and rng.random() < 0.15:  # the constant column under a literal scale of its own
        f += " + " + rng.choice(["2.5:1", "0.5:1", "3:1"])
    ctxk = rng.random() < 0.06
    if ctxk:
        f += " + kc"
    if rng.random() < 0.4 and n >= 8:
        v = rng.choice(nums)
        t = rng.choice(EXTRA_NUM).format(v=v)
        if not (v == "p" and False):
            f += f" + {t}"
            used_t.append(t.split("(")[0])
    structured = rng.random() < 0.2
    if structured:
        f = f"{rng.choice(nums)} ~ {f}" + (f" | {rng.choice(cats)}" if rng.random() < 0.5 else "")
    # nulls (float columns and categoricals), dropped by the default policy
    nullpat = "none"
    if rng.random() < 0.35 and n >= 5 and not arrow:  # (arrow dictionaries arrive as text: levels living only in dropped rows would vanish)
        nullpat = "some"
        for name, c in frame["cols"]:
            if (c["kind"] == "num" and c.get("dtype") == "float64") or c["kind"] in ("cat", "text"):
                for i in range(n):
                    if rng.random() < 0.12:
                        c["values"][i] = None
        if used_t and used_t[0] in ("center", "scale", "poly", "bs"):
            nullpat = "none-forced"
            for name, c in frame["cols"]:
                if name in nums:
                    c["values"] = [0.5 + 0.1 * i if v is None else v for i, v in enumerate(c["values"])]
    if arrow:  # narwhals sees arrow dictionaries as text: only observed levels, alphabetical order
        for name, c in frame["cols"]:
            if c["kind"] == "cat":
                c["categories"] = sorted({v for v in c["values"] if v is not None}) or c["categories"][:1]
    caller = sorted(rng.sample(range(n), rng.randint(1, min(3, n)))) if rng.random() < 0.3 and n >= 6 and not used_t and not arrow else None  # (arrow: levels living only in dropped rows vanish, see above)
    return {"ctxk": ctxk, "frame": frame, "formula": f, "efr": rng.random() < 0.7, "arrow": arrow, "structured": structured, "caller": caller,
            "sig": [sorted((sorted(factors[k]["kind"] for k in t["factors"]), bool(t["scale"])) for t in terms), used_t, nullpat]}


def flat(res):
    return list(res._flatten()) if hasattr(res, "_flatten") else [res]


def judge(case) -> Outcome:
    import pandas as pd
    import pyarrow as pa
    from formulaic import Formula, ModelSpec, model_matrix
    from formulaic.materializers import PandasMaterializer

    out = Outcome()
    out.sig = (repr(case["sig"]), case["efr"], case["arrow"], case["structured"], case.get("caller") is not None)
    df = make_frame(case["frame"])
    f = case["formula"]
    kw = {"ensure_full_rank": case["efr"]}
    CTX = {"kc": 3.0} if case.get("ctxk") else {}  # a plain number from the caller's context used as a term
    tag = f"{f!r} efr={case['efr']} caller={case.get('caller')}"

    def dk():  # the caller's own drop set (a fresh one per call): an option like any other, on every entry point
        return {"drop_rows": set(case["caller"])} if case.get("caller") else {}

    try:
        with quiet():
            ref = model_matrix(f, df, output="numpy", context=CTX, **kw, **dk())
    except Exception as e:  # noqa: BLE001
        msg = str(e)
        from .c12 import VALIDATION_PHRASES

        if "ValueError" in msg and any(p in msg for p in VALIDATION_PHRASES):  # parameters a transform documents as invalid for this data
            out.decided = False
            return out
        if case.get("ctxk") and any(p in msg for p in ("must have the same shape", "incompatible dimensions", "No implementation of `drop_rows()`", "dimension mismatch", "inconsistent shapes")):
            # finding K12: a factor that evaluates to a plain number is broadcast by the pandas output only
            out.fail("c05.scalar_context_factor", f"{tag}: numpy output with the context number `kc` as a term: {type(e).__name__}: {msg[:120]}")
            return out
        out.fail("c05.reference_raised", f"{tag}: {type(e).__name__}: {msg[:200]}")
        return out
    refs = [(dense(p), colnames(p)) for p in flat(ref)]
    try:
        with quiet():
            ref_index = [list(p.index) for p in flat(model_matrix(f, df, output="pandas", context=CTX, **kw, **dk()))]
    except Exception:  # noqa: BLE001  (judged as a path below)
        ref_index = None
    paths = []
    for output in ("pandas", "numpy", "sparse"):
        paths.append((f"pandas/model_matrix/{output}", lambda o=output: model_matrix(f, df, output=o, context=CTX, **kw, **dk())))
        paths.append((f"pandas/Formula/{output}", lambda o=output: Formula(f).get_model_matrix(df, output=o, context=CTX, **kw, **dk())))
        paths.append((f"pandas/ModelSpec/{output}", lambda o=output: ModelSpec.from_spec(Formula(f), output=o, **kw).get_model_matrix(df, context=CTX, **dk())))
        paths.append((f"pandas/materializer/{output}", lambda o=output: PandasMaterializer(df, context=CTX).get_model_matrix(f, output=o, **kw, **dk())))

        def reused(o=output):  # one materializer object serving a second, different request
            mat = PandasMaterializer(df, context=CTX)
            mat.get_model_matrix(f, output={"pandas": "sparse", "numpy": "pandas", "sparse": "numpy"}[o], **kw)
            return mat.get_model_matrix(f, output=o, **kw, **dk())

        paths.append((f"pandas/materializer_reused/{output}", reused))
    # reuse of the reference's (possibly structured) spec, with and without option overrides
    rspec = ref.model_spec
    paths.append(("pandas/spec_reuse/numpy", lambda: rspec.get_model_matrix(df, context=CTX, **dk())))
    for output in ("pandas", "numpy", "sparse"):
        paths.append((f"pandas/spec_reuse_override/{output}", lambda o=output: rspec.get_model_matrix(df, output=o, context=CTX, **dk())))
        paths.append((f"pandas/model_matrix(spec)/{output}", lambda o=output: model_matrix(rspec, df, output=o, context=CTX, **dk())))
        # a model matrix (or structure of them) handed in as the spec, with an option override
        paths.append((f"pandas/model_matrix(matrix)/{output}", lambda o=output: model_matrix(ref, df, output=o, context=CTX, **dk())))
        paths.append((f"pandas/materializer(matrix)/{output}", lambda o=output: PandasMaterializer(df, context=CTX).get_model_matrix(ref, output=o, **dk())))
        # the same columns handed over as a plain mapping name -> column
        paths.append((f"dict/model_matrix/{output}", lambda o=output: model_matrix(f, {c: df[c] for c in df.columns}, output=o, context=CTX, **kw, **dk())))
    # the frame reaches the library inside a transparent wrapper (a pandas-output model matrix used as data for a second stage)
    from formulaic.model_matrix import ModelMatrix

    for output in ("pandas", "numpy"):
        paths.append((f"pandas/wrapped_frame/model_matrix/{output}", lambda o=output: model_matrix(f, ModelMatrix(df), output=o, context=CTX, **kw, **dk())))
    paths.append(("pandas/wrapped_frame/Formula/pandas", lambda: Formula(f).get_model_matrix(ModelMatrix(df), output="pandas", context=CTX, **kw, **dk())))
    paths.append(("dict/Formula/numpy", lambda: Formula(f).get_model_matrix({c: df[c] for c in df.columns}, output="numpy", context=CTX, **kw, **dk())))
    for output in ("pandas", "numpy", "sparse", "narwhals"):
        paths.append((f"narwhals(pandas)/model_matrix/{output}", lambda o=output: model_matrix(f, df, output=o, materializer="narwhals", context=CTX, **kw, **dk())))
    if case["arrow"]:
        table = pa.Table.from_pandas(df, preserve_index=False)
        for output in ("pandas", "numpy", "sparse", "narwhals"):
            paths.append((f"narwhals(arrow)/model_matrix/{output}", lambda o=output: model_matrix(f, table, output=o, context=CTX, **kw, **dk())))
        paths.append(("narwhals(arrow)/Formula/numpy", lambda: Formula(f).get_model_matrix(table, output="numpy", context=CTX, **kw, **dk())))
    for name, fn in paths:
        try:
            with quiet():
                res = fn()
        except Exception as e:  # noqa: BLE001
            out.fail("c05.path_raised", f"{tag}: path {name}: {type(e).__name__}: {str(e)[:200]}")
            continue
        parts = flat(res)
        # the container is the one asked for (an override that is silently ignored leaves the numbers alone, not the type)
        want = name.rsplit("/", 1)[-1]
        import scipy.sparse as _sp

        def kind_of(p_):
            o_ = getattr(p_, "__wrapped__", p_)
            return "sparse" if _sp.issparse(o_) else "pandas" if isinstance(o_, pd.DataFrame) else "numpy" if isinstance(o_, np.ndarray) else type(o_).__name__

        if want in ("pandas", "numpy", "sparse") and parts and any(kind_of(p_) != want for p_ in parts):
            out.fail("c05.output_type", f"{tag}: path {name}: asked for {want} output, got {sorted({kind_of(p_) for p_ in parts})}")
            continue
        if len(parts) != len(refs):
            out.fail("c05.structure", f"{tag}: path {name}: {len(parts)} parts vs {len(refs)}")
            continue
        for p, (R, names) in zip(parts, refs):
            try:
                M = dense(p)
            except TypeError as e:
                out.fail("c05.non_numeric", f"{tag}: path {name}: {e}")
                break
            n2 = colnames(p)
            if n2 != names:
                out.fail("c05.names_differ", f"{tag}: path {name}: columns {n2} vs reference {names}")
                break
            if not same(M, R):
                out.fail("c05.values_differ", f"{tag}: path {name}: values differ from the pandas/numpy reference (shape {M.shape} vs {R.shape}); first rows {M[:2].tolist()} vs {R[:2].tolist()}")
                break
        # row labels of pandas outputs built by the pandas materializer (whatever the entry point or wrapper)
        if ref_index is not None and name.startswith(("pandas/", "dict/")) and name.endswith("/pandas") and len(parts) == len(ref_index):
            for p, idx in zip(parts, ref_index):
                if hasattr(p, "index") and not callable(p.index) and list(p.index) != idx:
                    out.fail("c05.row_labels_differ", f"{tag}: path {name}: row labels {list(p.index)[:6]} vs {idx[:6]} from model_matrix on the same data")
                    break
        out.see("paths_compared")
    return out


PINNED = [
    ("paths", {"frame": {"cols": [["v", {"kind": "bool", "dtype": "bool", "values": [True, False, True]}], ["x", {"kind": "num", "dtype": "float64", "values": [1.0, 2.0, 3.0]}]], "index": None},
               "formula": "v + x", "efr": True, "arrow": True, "structured": False, "sig": ["bool"]}),
    ("paths", {"frame": {"cols": [["B", {"kind": "cat", "categories": ["r", "q", "p"], "values": ["q", "p", "r", "q"]}], ["x", {"kind": "num", "dtype": "float64", "values": [1.0, 2.0, 3.0, 4.0]}]], "index": None},
               "formula": "0 + C(B) + x", "efr": True, "arrow": False, "structured": False, "sig": ["C order"]}),
]
SUBS = {"paths": Sub(judge=judge, gen=gen_case, quick=900, thorough=40_000, min_decided=150)}
