"""C13 - scaling, polynomial and elementwise transforms meet their numeric contracts."""

from __future__ import annotations

import math
import random

import numpy as np

from ..core import Outcome, Sub
from ..data import dense, quiet

ID = "C13"
DESIGN_REF = "DESIGN.md section 4 / C13"
TECHNIQUE = "runtime monitoring: numeric-contract monitor (mean/std/orthonormality/span identities, recorded-statistics replay against own numpy reference, elementwise functions against math.*) over random vectors of every magnitude"
LEVEL_TEXT = (
    "Random real vectors (length 2-200, magnitudes 1e-12..1e9, offsets up to condition 1e5, ties, integers, NaNs for poly) are "
    "pushed through the real scale/center/standardize/poly transforms - both through model_matrix and by calling the functions "
    "in TRANSFORMS directly with a state dict - and the outputs must satisfy the defining identities within a tolerance derived "
    "from the input's conditioning; follow-up vectors must be transformed with the statistics recorded at fit time (recomputed "
    "independently here). The preloaded elementwise functions are compared with Python's math module value by value."
)
LEVEL_NOTE = "trusts: numpy/math; tolerance policy 200*eps*kappa (mean/std) and max(1e3*eps*kappa^2*4^degree, 50*eps*cond(Vandermonde)) (orthonormality; cases where that exceeds 1e-4 skip the identity), kappa=max|x|/std(x) <= 1e5"
RULE = (
    "random vectors x flags (center/scale/ddof, explicit numeric center/scale), poly degree 1..min(n-1,8) raw/orthonormal with "
    "NaN rows, replay on fresh vectors, path in {model_matrix, direct}; elementwise: 6 functions x random arguments. "
    "distinct = (transform, flags, length class, magnitude decade, offset class, path)"
)
ASSUMPTIONS = ["inputs have std > 0 and condition kappa <= 1e5 (beyond that the input no longer carries the information)"]
EPS = np.finfo(float).eps


def rand_vector(rng: random.Random, n: int):
    kind = rng.choice(["normal", "uniform", "ints", "ties"])
    if kind == "normal":
        base = [rng.gauss(0, 1) for _ in range(n)]
    elif kind == "uniform":
        base = [rng.uniform(-1, 1) for _ in range(n)]
    elif kind == "ints":
        base = [float(rng.randint(-20, 20)) for _ in range(n)]
    else:
        pool = [rng.gauss(0, 1) for _ in range(max(2, n // 3))]
        base = [rng.choice(pool) for _ in range(n)]
    if len(set(base)) < 2:
        base[0] += 1.0
        base[-1] -= 1.0
    mag = 10.0 ** rng.randint(-12, 9)
    off = rng.choice([0, 0, 1, 10, 1e3, 1e4])
    if rng.random() < 0.08:  # "any magnitude": far beyond where a square of the value is representable
        mag = 10.0 ** rng.choice([-290, -250, -200, -170, -120, -60, 40, 80, 120, 150, 200, 280])
        off = rng.choice([0, 0, 1])
    return [(b + off) * mag for b in base], int(round(math.log10(mag))), off


def rstd(x) -> float:
    """Population standard deviation formed without squaring the raw magnitudes."""
    x = np.asarray(x, float)
    u = float(np.max(np.abs(x))) if len(x) else 0.0
    return u * float(np.std(x / u)) if u > 0 and math.isfinite(u) else float(np.std(x))


def gen_scale(rng: random.Random, tier: str) -> dict:
    n = rng.choice([2, 3, 4, 7, 20, 50, 200])
    x, dec, off = rand_vector(rng, n)
    xn, _, _ = rand_vector(rng, rng.choice([1, 3, 10]))
    fn = rng.choice(["scale", "scale", "center", "standardize"])
    flags = {}
    if fn in ("scale", "standardize"):
        if rng.random() < 0.5:
            flags["center"] = rng.choice([True, False, 2.5])
        if rng.random() < 0.5:
            flags["rescale" if fn == "standardize" else "scale"] = rng.choice([True, False, 3.0])
        if rng.random() < 0.5:
            flags["ddof"] = rng.choice([0, 1, 1, 2, 0.5, 1.5]) if n > 2 else rng.choice([0, 1, 0.5])
    # follow-up vector on the same scale as the training vector
    s = rstd(x) or 1.0
    m = float(np.mean(x))
    xn = [m + s * rng.gauss(0, 2) for _ in xn]
    # how the vector is held: float array, integer array (whole numbers), one-column scipy sparse matrix, pandas Series
    inp = rng.choice(["array", "array", "int", "sparse", "series"])
    if inp == "int":
        xi, xni = [float(round(v)) for v in x], [float(round(v)) for v in xn]
        if len(set(xi)) >= 3 and max(abs(v) for v in xi) < 2 ** 52:
            x, xn = xi, xni
        else:
            inp = "array"
    path = rng.choice(["mm", "mm", "direct", "direct", "mm_quoted"])
    if inp == "sparse" and path == "mm_quoted":
        path = "mm"
    return {"fn": fn, "flags": flags, "x": x, "xnew": xn, "dec": dec, "off": off, "path": path, "input": inp}


def call_text(fn, flags, var="x"):
    args = "".join(f", {k}={v!r}" for k, v in flags.items())
    return f"{fn}({var}{args})"


def run_transform(case, expr):
    """Returns (fit output, replay output on xnew) as 2-D arrays via the chosen path."""
    import pandas as pd
    from formulaic import model_matrix
    from formulaic.transforms import TRANSFORMS

    x = np.array(case["x"], float)
    xn = np.array(case["xnew"], float)
    inp = case.get("input", "array")

    def held(v):
        import scipy.sparse as sp

        if inp in ("int", "int8", "int16"):
            return v.astype("int64" if inp == "int" else inp)
        if inp == "sparse":
            return sp.csc_matrix(v.reshape(-1, 1))
        if inp == "series":
            return pd.Series(v)
        return v

    if case["path"] == "mm":
        with quiet():
            if inp == "sparse":  # a sparse column can only reach a formula through the context
                mm = model_matrix("0 + " + expr.replace("(x", "(m", 1), pd.DataFrame({"x": x}), na_action="ignore", context={"m": held(x)})
                rp = mm.model_spec.get_model_matrix(pd.DataFrame({"x": xn}), context={"m": held(xn)})
            else:
                mm = model_matrix("0 + " + expr, pd.DataFrame({"x": held(x)}), na_action="ignore", context={})
                rp = mm.model_spec.get_model_matrix(pd.DataFrame({"x": held(xn)}))
        return dense(mm), dense(rp)
    if case["path"] == "mm_quoted":
        # the column can only be named in backticks, next to another quoted column and a plain column whose names all
        # sanitize to the same Python identifier; each transform call must keep statistics of its own
        def frame(v):
            return pd.DataFrame({"x v": 3 * v[::-1] + 7, "x+v": v, "x_v": -v})

        e1, e2 = expr.replace("(x", "(`x v`", 1), expr.replace("(x", "(`x+v`", 1)
        with quiet():
            mm = model_matrix(f"0 + {e1} + {e2}", frame(x), na_action="ignore", context={})
            rp = mm.model_spec.get_model_matrix(frame(xn).drop(columns=["x_v"]) if len(xn) % 2 else frame(xn))
        k = len(mm.model_spec.column_names) // 2
        return dense(mm)[:, k:], dense(rp)[:, k:]
    state: dict = {}
    fn = TRANSFORMS[case["fn"]]
    kw = dict(case.get("flags", {}))
    if case["fn"] == "poly":
        a = fn(held(x), case["degree"], raw=case["raw"], _state=state)
        b = fn(held(xn), case["degree"], raw=case["raw"], _state=state)
    else:
        a = fn(held(x), **kw, _state=state)
        b = fn(held(xn), **kw, _state=state)
    a = np.asarray(getattr(a, "__wrapped__", a), float)
    b = np.asarray(getattr(b, "__wrapped__", b), float)
    return a.reshape(len(x), -1), b.reshape(len(xn), -1)


def judge_scale(case) -> Outcome:
    out = Outcome()
    x = np.array(case["x"], float)
    xn = np.array(case["xnew"], float)
    n = len(x)
    fn, flags = case["fn"], case["flags"]
    out.sig = (fn, tuple(sorted((k, str(v)) for k, v in flags.items())), n, case["dec"], case["off"], case["path"], case.get("input", "array"))
    sd = rstd(x)
    kappa = float(np.max(np.abs(x)) / sd) if sd > 0 else float("inf")
    if not math.isfinite(kappa) or kappa > 1e6:
        out.decided = False
        return out
    tol = 200 * EPS * max(kappa, 1.0)
    tag = f"{call_text(fn, flags)} n={n} magnitude=1e{case['dec']} offset={case['off']} path={case['path']}"
    try:
        a, b = run_transform(case, call_text(fn, flags))
    except Exception as e:  # noqa: BLE001
        out.fail("c13.raised", f"{tag}: {type(e).__name__}: {str(e)[:200]}")
        return out
    a, b = a[:, 0], b[:, 0]
    if fn == "center":
        center, scale, ddof = True, False, 1
    else:
        center = flags.get("center", True)
        scale = flags.get("rescale" if fn == "standardize" else "scale", True)
        ddof = flags.get("ddof", 0 if fn == "standardize" else 1)  # standardize is patsy's: population std by default
    # reference statistics computed here
    c = float(np.mean(x)) if center is True else (0.0 if center is False else float(center))
    xc = x - c
    if scale is True:
        u = float(np.max(np.abs(xc))) or 1.0
        s = u * math.sqrt(float(np.sum((xc / u) ** 2)) / (n - ddof)) if n - ddof > 0 else float("nan")
    elif scale is False:
        s = 1.0
    else:
        s = float(scale)
    if not math.isfinite(s) or s == 0:
        out.decided = False
        return out
    mx = float(np.max(np.abs(x)))
    if center is True:
        m = abs(float(np.mean(a)))
        lim = tol if scale is not False else 200 * EPS * mx
        if scale not in (True, False):
            lim = 200 * EPS * mx / abs(s)
        if m > lim:
            out.fail("c13.mean_not_zero", f"{tag}: mean of output {m:.3e} > {lim:.1e}")
    if scale is True:
        r = float(np.sum(a ** 2)) / (n - ddof)
        if abs(r - 1) > 4 * tol + 1e-12:
            out.fail("c13.std_not_one", f"{tag}: sum(out^2)/(n-ddof) = {r!r} (|.-1| > {4 * tol:.1e})")
    if case.get("input", "array") == "array" and center in (True, False) and scale in (True, False):
        # column-wise: next to another column (a 2-D array, as scale(poly(x, 2, raw=True)) hands over) the column comes out the same
        try:
            from formulaic.transforms import TRANSFORMS

            other = x[::-1] * 3.0 + 1.0
            kw2 = {k_: v_ for k_, v_ in flags.items()}
            with quiet():
                two = np.asarray(TRANSFORMS[fn](np.column_stack([x, other]), _state={}, **kw2), float)
            if two.shape != (n, 2) or not np.allclose(two[:, 0], a, rtol=1e-9, atol=200 * EPS * max(kappa, 1.0) * max(1.0, float(np.max(np.abs(a))))):
                out.fail("c13.columnwise", f"{tag}: as the first column of a two-column array the result is {two[:3, 0].tolist() if two.ndim == 2 else two.shape}, alone it is {a[:3].tolist()}")
            out.see("two_column_inputs")
        except Exception as e:  # noqa: BLE001
            out.fail("c13.columnwise", f"{tag}: two-column input: {type(e).__name__}: {str(e)[:120]}")
    ref_fit = xc / s
    ref_new = (xn - c) / s
    lim_v = 200 * EPS * max(kappa, 1.0) * max(1.0, float(np.max(np.abs(ref_fit))))
    if not np.allclose(a, ref_fit, rtol=1e-9, atol=lim_v):
        out.fail("c13.fit_values", f"{tag}: fit output {a[:3]} != (x-c)/s {ref_fit[:3]}")
    lim_n = 200 * EPS * max(kappa, 1.0) * max(1.0, float(np.max(np.abs(ref_new))))
    if not np.allclose(b, ref_new, rtol=1e-9, atol=lim_n):
        out.fail("c13.replay_statistics", f"{tag}: replay on new data {b[:3]} != (xnew - c_fit)/s_fit {ref_new[:3]} (recorded statistics not applied unchanged)")
    return out


# ------------------------------------------------------------------ poly


def gen_poly(rng: random.Random, tier: str) -> dict:
    n = rng.choice([3, 4, 6, 10, 25, 60, 200])
    x, dec, off = rand_vector(rng, n)
    if off > 10:
        off = 10
        x, dec, _ = rand_vector(rng, n)
    distinct = len(set(x))
    degree = rng.randint(1, max(1, min(distinct - 1, 8)))
    raw = rng.random() < 0.25
    nan_rows = sorted(rng.sample(range(n), rng.randint(1, max(1, n // 5)))) if rng.random() < 0.35 and not raw else []
    s = rstd(x) or 1.0
    m = float(np.mean(x))
    xn = [m + s * rng.uniform(-1.5, 1.5) for _ in range(rng.choice([1, 4, 9]))]
    inp = "array"
    if not nan_rows and rng.random() < 0.3:  # whole numbers held in a (small) integer dtype: powers are those of the numbers
        xi = [float(round(v)) for v in x]
        if len(set(xi)) > degree and max(abs(v) for v in xi + [float(round(v)) for v in xn]) <= 120:
            x, xn, inp = xi, [float(round(v)) for v in xn], rng.choice(["int8", "int16", "int"])
        elif len(set(xi)) > degree and max(abs(v) for v in xi) < 2 ** 31:
            x, xn, inp = xi, [float(round(v)) for v in xn], "int"
    return {"fn": "poly", "degree": degree, "raw": raw, "x": x, "xnew": xn, "nan_rows": nan_rows, "dec": dec, "off": off,
            "path": rng.choice(["mm", "mm", "direct", "direct", "mm_quoted"]), "input": inp}


def judge_poly(case) -> Outcome:
    out = Outcome()
    x = np.array(case["x"], float)
    n, d = len(x), case["degree"]
    out.sig = ("poly", d, case["raw"], n, case["dec"], bool(case["nan_rows"]), case["path"])
    xv = x.copy()
    xv[case["nan_rows"]] = np.nan
    ok_rows = ~np.isnan(xv)
    xs = xv[ok_rows]
    if len(set(xs.tolist())) <= d:
        out.decided = False
        return out
    sd = rstd(xs)
    kappa = float(np.max(np.abs(xs)) / sd)
    # finding K11: the recurrence works with monic polynomials in the data's own units, so sums of squares of degree-k
    # polynomials need (spread)^(2k) to be representable
    spread = float(np.max(np.abs(xs - xs.mean())))
    extreme = spread > 0 and not (-290 < 2 * d * math.log10(spread) + math.log10(len(xs)) < 290)
    tag = f"poly(x, {d}, raw={case['raw']}) n={n} nan_rows={case['nan_rows']} magnitude=1e{case['dec']} path={case['path']}"
    c2 = dict(case)
    c2["x"] = xv.tolist()
    try:
        a, b = run_transform(c2, f"poly(x, {d}, raw={case['raw']})")
    except Exception as e:  # noqa: BLE001
        out.fail("c13.raised", f"{tag}: {type(e).__name__}: {str(e)[:200]}")
        return out
    if a.shape != (n, d):
        out.fail("c13.poly_shape", f"{tag}: shape {a.shape}")
        return out
    xn = np.array(case["xnew"], float)
    if case["raw"]:
        ref = np.stack([xv ** k for k in range(1, d + 1)], axis=1)
        refn = np.stack([xn ** k for k in range(1, d + 1)], axis=1)
        if not np.allclose(a, ref, rtol=1e-12, equal_nan=True) or not np.allclose(b, refn, rtol=1e-12):
            out.fail("c13.poly_raw", f"{tag}: raw powers wrong")
        return out
    if extreme:
        Pe = a[ok_rows]
        with np.errstate(all="ignore"):
            bad = (not np.isfinite(Pe).all()) or not np.allclose(Pe.T @ Pe, np.eye(d), atol=1e-6)
        if bad:
            out.fail("c13.poly_extreme_magnitude", f"{tag}: spread {spread:.1e}: the squares of the degree-{d} polynomial over/underflow; columns are not an orthonormal basis ({Pe[:2].tolist()})")
            return out
        out.see("extreme_magnitude_ok")
    if not np.isnan(a[~ok_rows]).all() or np.isnan(a[ok_rows]).any():
        out.fail("c13.poly_nan_rows", f"{tag}: NaN rows of the output are not exactly the NaN rows of the input")
        return out
    P = a[ok_rows]
    # rounding in the three-term recurrence grows with the conditioning of the abscissa *and* geometrically with the degree
    # (measured on the unchanged code: 2e-9 at degree 7-8 on 10-25 points); beyond 1e-4 the identity no longer discriminates
    z0 = (xs - xs.mean()) / sd
    condV = float(np.linalg.cond(np.vander(z0, d + 1, increasing=True)))  # clustered abscissae make a high degree ill-posed whatever kappa is
    tol = max(1e3 * EPS * max(kappa, 1.0) ** 2 * 4.0 ** d, 50 * EPS * condV) + 1e-10
    if tol > 1e-4:
        out.see("orthonormality_skipped_ill_conditioned")
    else:
        G = P.T @ P
        if not np.allclose(G, np.eye(d), atol=tol):
            out.fail("c13.poly_orthonormal", f"{tag}: P'P deviates from I by {np.abs(G - np.eye(d)).max():.2e} (tol {tol:.1e})")
        s1 = np.abs(P.sum(axis=0)).max() / math.sqrt(len(xs))
        if s1 > tol:
            out.fail("c13.poly_orthogonal_to_constant", f"{tag}: |P'1|/sqrt(n) = {s1:.2e} (tol {tol:.1e})")
    # span[1, P] == span of raw powers (work on a standardized abscissa for conditioning)
    z = (xs - xs.mean()) / sd
    V = np.vander(z, d + 1, increasing=True)
    Q, _ = np.linalg.qr(V)
    resid = P - Q @ (Q.T @ P)
    if np.abs(resid).max() > 1e-6:
        out.fail("c13.poly_span", f"{tag}: columns leave the span of the raw powers by {np.abs(resid).max():.2e}")
    # column k must have exact polynomial degree k: its component along Q[:, k] is non-zero, along higher ones zero
    coef = Q.T @ P  # (d+1, d)
    for k in range(d):
        if np.abs(coef[k + 2:, k]).max(initial=0.0) > 1e-6 or abs(coef[k + 1, k]) < 1e-3:
            out.fail("c13.poly_degree_structure", f"{tag}: column {k + 1} is not a polynomial of exact degree {k + 1}")
            break
    # replay: the recorded polynomials evaluated at new points == least-squares polynomial through the fitted values
    if np.linalg.cond(V) < 1e7:
        B, *_ = np.linalg.lstsq(V, P, rcond=None)
        zn = (xn - xs.mean()) / sd
        refn = np.vander(zn, d + 1, increasing=True) @ B
        lim = 1e-6 * max(1.0, float(np.abs(refn).max()))
        if b.shape != refn.shape or not np.allclose(b, refn, atol=lim, rtol=1e-6):
            out.fail("c13.replay_statistics", f"{tag}: replay at new points {b[:2].tolist()} != recorded polynomials evaluated there {refn[:2].tolist()}")
        else:
            out.see("poly_replays_checked")
    return out


# ------------------------------------------------------------------ elementwise

ELEM = {
    "log": (math.log, True), "log2": (math.log2, True), "log10": (math.log10, True),
    "exp": (math.exp, False), "exp2": (lambda v: 2.0 ** v, False), "exp10": (lambda v: 10.0 ** v, False),
}
INVERSE = {"log": "exp", "exp": "log", "log2": "exp2", "exp2": "log2", "log10": "exp10", "exp10": "log10"}


def gen_elem(rng: random.Random, tier: str) -> dict:
    name = rng.choice(sorted(ELEM))
    dtype = rng.choice(["float64", "float64", "int64", "int32", "float32"])
    if dtype.startswith("int"):  # whole numbers held in an integer column: the functions are still the real-valued ones
        xs = [rng.randint(1, 10 ** rng.randint(1, 8)) for _ in range(20)] if ELEM[name][1] else [rng.randint(-12, 25) for _ in range(20)]
    elif ELEM[name][1]:
        xs = [10.0 ** rng.uniform(-8, 8) for _ in range(25)]
    else:
        xs = [rng.uniform(-20, 20) for _ in range(25)] + [float(rng.randint(-5, 5)) for _ in range(5)]
    if dtype == "float32":
        xs = [float(np.float32(v)) for v in xs]
    return {"name": name, "x": xs, "path": rng.choice(["mm", "direct"]), "dtype": dtype}


def judge_elem(case) -> Outcome:
    import pandas as pd
    from formulaic import model_matrix
    from formulaic.transforms import TRANSFORMS

    out = Outcome()
    name = case["name"]
    dtype = case.get("dtype", "float64")
    out.sig = (name, case["path"], dtype, tuple(int(math.log10(abs(v) + 1e-300)) for v in case["x"][:6]))
    x = np.array(case["x"], dtype=dtype)
    rtol = 1e-12 if dtype != "float32" else 2e-6  # float32 columns may be computed in single precision

    def apply(nm, v):
        if case["path"] == "direct":
            return np.asarray(TRANSFORMS[nm](v), float)
        return dense(model_matrix(f"0 + {nm}(x)", pd.DataFrame({"x": v}), context={}))[:, 0]

    try:
        got = apply(name, x)
        ref = np.array([ELEM[name][0](float(v)) for v in x])
        if not np.allclose(got, ref, rtol=rtol, atol=0):
            i = int(np.argmax(np.abs(got - ref) / np.abs(ref)))
            out.fail("c13.elementwise_value", f"{name}({x[i]!r}) = {got[i]!r}, math gives {ref[i]!r} (path {case['path']})")
            return out
        inv = INVERSE[name]
        back = apply(inv, got)
        if not np.allclose(back, x, rtol=max(1e-9, 10 * rtol), atol=max(1e-9, 1e3 * rtol)):
            out.fail("c13.elementwise_inverse", f"{inv}({name}(x)) != x, e.g. x={x[0]!r} -> {back[0]!r}")
    except Exception as e:  # noqa: BLE001
        out.fail("c13.raised", f"{name}: {type(e).__name__}: {str(e)[:200]}")
    return out


PINNED = [
    ("elementwise", {"name": "exp10", "x": [0.0, 1.0, 2.0, -1.0, 0.5], "path": "mm"}),
    ("scale", {"fn": "scale", "flags": {}, "x": [1e-9, 2e-9, 4e-9, 3e-9], "xnew": [2e-9], "dec": -9, "off": 0, "path": "mm"}),
]
SUBS = {
    "scale": Sub(judge=judge_scale, gen=gen_scale, quick=6000, thorough=150_000, min_decided=300),
    "poly": Sub(judge=judge_poly, gen=gen_poly, quick=3000, thorough=100_000, min_decided=150),
    "elementwise": Sub(judge=judge_elem, gen=gen_elem, quick=1500, thorough=30_000, min_decided=100),
}
