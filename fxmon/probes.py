"""Shared internal probes (DESIGN.md section 2.1), attached from outside the repository.

Each probe wraps a real function/class of the tree under test, counts its evaluations and
records breaches against the case currently being judged.  Probes never raise into the code
they observe (record-and-continue); the runner turns recorded breaches into failures.
A probe whose anchor has disappeared is reported as not attached (MONITOR-UNREACHED) and the
boundary oracle still decides.
"""

from __future__ import annotations

import functools
from typing import Any, Callable

_STATE: dict[str, dict] = {}
_BREACHES: list[dict] = []
_ATTACHED = False
SUITE_BREACHES: list[dict] = []
CURRENT_TEST = None


def begin_case() -> None:
    _BREACHES.clear()


def end_case() -> list[dict]:
    out = list(_BREACHES[:5])
    _BREACHES.clear()
    return out


def breach(probe: str, msg: str, mech: str | None = None) -> None:
    """Record a breach observed by `probe`; `mech` names a narrower mechanism of the same probe (used for known findings)."""
    _STATE[probe]["breaches"] += 1
    _BREACHES.append({"mech": f"probe.{mech or probe}", "msg": msg[:1500]})


def _reg(name: str) -> dict:
    return _STATE.setdefault(name, {"evaluations": 0, "breaches": 0, "attached": False})


def summary(_state=None) -> dict:
    return {k: dict(v) for k, v in _STATE.items()}


# registry of installers: name -> (properties it serves, installer)
INSTALLERS: dict[str, tuple[set, Callable[[dict], None]]] = {}


def installer(name: str, serves: set):
    def deco(fn):
        INSTALLERS[name] = (serves, fn)
        return fn

    return deco


def attach(prop_id: str) -> dict:
    """Attach every probe that serves `prop_id` (idempotent per process)."""
    global _ATTACHED
    if _ATTACHED:
        return _STATE
    _ATTACHED = True
    from . import probe_defs  # noqa: F401  (registers installers)

    for name, (serves, fn) in INSTALLERS.items():
        if prop_id != "ALL" and prop_id not in serves and "*" not in serves:
            continue
        st = _reg(name)
        try:
            fn(st)
            st["attached"] = True
        except Exception as e:  # anchor renamed/removed: report, do not fail
            st["attached"] = False
            st["attach_error"] = f"{type(e).__name__}: {e}"
    return _STATE


def wrap(obj: Any, attr: str, make: Callable[[Callable], Callable]) -> None:
    """Re-bind obj.attr to make(original), preserving staticmethod/classmethod-ness."""
    raw = obj.__dict__[attr] if isinstance(obj, type) else getattr(obj, attr)
    if isinstance(raw, staticmethod):
        setattr(obj, attr, staticmethod(make(raw.__func__)))
    elif isinstance(raw, classmethod):
        setattr(obj, attr, classmethod(make(raw.__func__)))
    else:
        new = make(raw)
        try:
            functools.update_wrapper(new, raw)
        except Exception:
            pass
        setattr(obj, attr, new)
