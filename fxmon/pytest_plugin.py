"""pytest plugin: run the repository's own test-suite with every fxmon probe attached (record-and-continue).

Used by the 'suite_under_probes' sub-monitor: `pytest -p fxmon.pytest_plugin` with FXMON_PLUGIN_OUT=<json path>.
"""

import json
import os


def pytest_configure(config):
    from fxmon import use_repo

    use_repo()
    from fxmon import probes

    probes.attach("ALL")


def pytest_runtest_setup(item):
    from fxmon import probes

    probes.begin_case()
    probes.CURRENT_TEST = item.nodeid


def pytest_runtest_teardown(item, nextitem):
    from fxmon import probes

    for b in probes.end_case():
        probes.SUITE_BREACHES.append({"test": item.nodeid, **b})


def pytest_sessionfinish(session, exitstatus):
    from fxmon import probes

    out = os.environ.get("FXMON_PLUGIN_OUT")
    if out:
        with open(out, "w") as f:
            json.dump({"probes": probes.summary(), "breaches": probes.SUITE_BREACHES[:50], "exitstatus": int(exitstatus)}, f, default=repr)
