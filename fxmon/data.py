"""JSON-able descriptions of data frames and helpers to compare model-matrix outputs."""

from __future__ import annotations

import hashlib
import math
import warnings
from typing import Any

import numpy as np
import pandas as pd

# ------------------------------------------------------------------ frames
#
# A frame spec is {"cols": [[name, {"kind": ..., "values": [...], ...}], ...], "index": <index spec>|None}
#   kind "num":  dtype (numpy/pandas dtype string), values (None => missing)
#   kind "cat":  pandas categorical; categories (declared order), ordered, values (None => missing)
#   kind "text": dtype in {"object", "str", "string[python]", "string[pyarrow]", "arrow_string"}, values
#   kind "bool": dtype in {"bool", "boolean"}, values
# index spec: {"kind": "default"|"labels"|"multi", "values": [...]}


def make_column(c: dict) -> Any:
    kind = c["kind"]
    vals = c["values"]
    if kind == "num":
        dt = c.get("dtype", "float64")
        if dt in ("Int64", "Int32", "Float64", "UInt8", "Int8"):
            return pd.array([None if v is None else v for v in vals], dtype=dt)
        if dt.startswith("arrow_"):
            import pyarrow as pa

            return pd.array(vals, dtype=pd.ArrowDtype(getattr(pa, dt[6:])()))
        arr = np.array([np.nan if v is None else v for v in vals], dtype="float64")
        if dt.startswith("sparse:"):  # pandas' sparse extension dtype with the given fill value
            return pd.arrays.SparseArray(arr, fill_value=float(dt.split(":", 1)[1]))
        if dt != "float64":
            arr = arr.astype(dt)
        return arr
    if kind == "cat":
        return pd.Categorical(
            [None if v is None else v for v in vals], categories=c["categories"], ordered=c.get("ordered", False)
        )
    if kind == "text":
        dt = c.get("dtype", "object")
        if dt == "object":
            # an explicit Series: pandas >= 3 would otherwise infer its string dtype from a plain object array
            return pd.Series([None if v is None else v for v in vals], dtype=object)
        if dt == "arrow_string":
            import pyarrow as pa

            return pd.array(vals, dtype=pd.ArrowDtype(pa.string()))
        return pd.array(vals, dtype=dt)
    if kind == "bool":
        dt = c.get("dtype", "bool")
        return pd.array(vals, dtype=dt) if dt == "boolean" else np.array(vals, dtype=bool)
    if kind == "mixed":
        return pd.Series(list(vals), dtype=object)
    raise ValueError(kind)


def make_index(ix: dict | None, n: int):
    if not ix or ix["kind"] == "default":
        return None
    if ix["kind"] == "labels":
        return pd.Index(ix["values"])
    if ix["kind"] == "multi":
        return pd.MultiIndex.from_tuples([tuple(v) for v in ix["values"]])
    raise ValueError(ix)


def make_frame(spec: dict) -> pd.DataFrame:
    cols = {name: make_column(c) for name, c in spec["cols"]}
    n = len(spec["cols"][0][1]["values"]) if spec["cols"] else spec.get("nrows", 0)
    index = make_index(spec.get("index"), n)
    index = index if index is not None else pd.RangeIndex(n)
    for v in cols.values():
        if isinstance(v, pd.Series):
            v.index = index  # (no re-alignment by label)
    df = pd.DataFrame(cols, index=index)
    return df


def col_values(spec: dict, name: str) -> list:
    for n, c in spec["cols"]:
        if n == name:
            return c["values"]
    raise KeyError(name)


def col_spec(spec: dict, name: str) -> dict:
    for n, c in spec["cols"]:
        if n == name:
            return c
    raise KeyError(name)


def nrows(spec: dict) -> int:
    return len(spec["cols"][0][1]["values"]) if spec["cols"] else spec.get("nrows", 0)


def take_rows(spec: dict, rows: list[int]) -> dict:
    out = {"cols": [], "index": None}
    for n, c in spec["cols"]:
        c2 = dict(c)
        c2["values"] = [c["values"][i] for i in rows]
        out["cols"].append([n, c2])
    ix = spec.get("index")
    if ix and ix["kind"] != "default":
        out["index"] = {"kind": ix["kind"], "values": [ix["values"][i] for i in rows]}
    return out


def is_null(v: Any) -> bool:
    return v is None or (isinstance(v, float) and math.isnan(v))


# ------------------------------------------------------------------ model-matrix outputs


def dense(mm: Any) -> np.ndarray:
    """Dense 2-D float array of any model-matrix output (pandas / numpy / sparse / arrow / narwhals)."""
    import scipy.sparse as sp

    obj = getattr(mm, "__wrapped__", mm)
    if sp.issparse(obj):
        return np.asarray(obj.toarray(), dtype=float)
    if isinstance(obj, pd.DataFrame):
        return to_float(obj.to_numpy(dtype=object) if obj.shape[1] else np.empty(obj.shape))
    if isinstance(obj, np.ndarray):
        return to_float(obj)
    try:
        import pyarrow as pa

        if isinstance(obj, pa.Table):
            return to_float(obj.to_pandas().to_numpy(dtype=object) if obj.num_columns else np.empty((obj.num_rows, 0)))
    except ImportError:  # pragma: no cover
        pass
    if hasattr(obj, "to_pandas"):
        return to_float(obj.to_pandas().to_numpy(dtype=object))
    return to_float(np.asarray(obj))


def to_float(a: np.ndarray) -> np.ndarray:
    """Cell-wise conversion: raises TypeError naming the first non-numeric cell."""
    a = np.asarray(a)
    if a.dtype != object:
        return a.astype(float)
    out = np.empty(a.shape, dtype=float)
    if a.size == 0:
        return out
    it = np.nditer(a, flags=["multi_index", "refs_ok"])
    for x in it:
        v = x.item()
        if v is None or v is pd.NA:
            out[it.multi_index] = np.nan
        elif isinstance(v, (bool, np.bool_, int, float, np.integer, np.floating)):
            out[it.multi_index] = float(v)
        else:
            raise TypeError(f"non-numeric cell {v!r} at {it.multi_index}")
    return out


def colnames(mm: Any) -> list[str]:
    return list(mm.model_spec.column_names)


def same(a: np.ndarray, b: np.ndarray, rtol: float = 1e-9, atol: float = 1e-9) -> bool:
    a = np.asarray(a, dtype=float)
    b = np.asarray(b, dtype=float)
    if a.shape != b.shape:
        return False
    if a.size == 0:
        return True
    scale = max(1.0, float(np.nanmax(np.abs(b))) if np.isfinite(np.nanmax(np.abs(np.where(np.isnan(b), 0, b)))) else 1.0)
    with np.errstate(invalid="ignore"):
        return bool(np.allclose(a, b, rtol=rtol, atol=atol * scale, equal_nan=True))


def digest(*parts: Any) -> str:
    h = hashlib.sha256()
    for p in parts:
        if isinstance(p, np.ndarray):
            h.update(str(p.shape).encode())
            h.update(np.ascontiguousarray(p).tobytes())
        else:
            h.update(repr(p).encode("utf8", "replace"))
        h.update(b"|")
    return h.hexdigest()[:24]


class quiet:
    """Context manager: silence warnings, but record them (list of (category name, message))."""

    def __enter__(self):
        self._cm = warnings.catch_warnings(record=True)
        self.log = self._cm.__enter__()
        warnings.simplefilter("always")
        return self

    def __exit__(self, *exc):
        self._cm.__exit__(*exc)
        return False

    def names(self) -> list[str]:
        return [w.category.__name__ for w in self.log]
