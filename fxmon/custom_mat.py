"""A third-party style materializer: it extends the pandas materializer through the documented extension point but keeps the
*default* row-wise product loop of FormulaMaterializer (the built-in materializers each override it)."""
_CLS = None


def base_product_materializer_name() -> str:
    global _CLS
    if _CLS is None:
        from formulaic.materializers import FormulaMaterializer, PandasMaterializer
        from interface_meta import override

        @override
        def _get_columns_for_term(self, factors, spec, scale=1):
            import numpy

            # (this materializer's encoded columns are plain numpy vectors: no index alignment in products)
            factors = [{k: numpy.asarray(getattr(v, "__wrapped__", v)) for k, v in f.items()} for f in factors]
            return FormulaMaterializer._get_columns_for_term(self, factors, spec, scale)

        _CLS = type("FxmonBaseProductMaterializer", (PandasMaterializer,), {
            "REGISTER_NAME": "fxmon_base_product", "REGISTER_INPUTS": (), "REGISTER_OUTPUTS": ("pandas", "numpy"),
            "_get_columns_for_term": _get_columns_for_term, "__module__": __name__})
    return "fxmon_base_product"
