"""Line coverage of the tree under test, measured with sys.monitoring (LINE events, each location disabled after its first
hit, so the overhead is negligible).  Enabled with FXMON_COVERAGE=<dir>; every worker writes <dir>/<check>-<pid>.json.
`python -m fxmon.cov report <dir>` merges and lists, per file under formulaic/, the executable lines no check reached."""

from __future__ import annotations

import atexit
import json
import os
import sys

TOOL = 4
_hits: dict[str, set] = {}


def start(repo_dir: str, tag: str) -> None:
    out_dir = os.environ.get("FXMON_COVERAGE")
    mon = getattr(sys, "monitoring", None)
    if not out_dir or mon is None:
        return
    prefix = os.path.join(os.path.realpath(repo_dir), "formulaic") + os.sep

    def on_line(code, line):
        fn = code.co_filename
        if fn.startswith(prefix):
            _hits.setdefault(fn[len(prefix):], set()).add(line)
        return mon.DISABLE

    try:
        mon.use_tool_id(TOOL, "fxmon-cov")
        mon.register_callback(TOOL, mon.events.LINE, on_line)
        mon.set_events(TOOL, mon.events.LINE)
    except Exception:  # noqa: BLE001
        return

    def dump():
        os.makedirs(out_dir, exist_ok=True)
        with open(os.path.join(out_dir, f"{tag}-{os.getpid()}.json"), "w") as f:
            json.dump({k: sorted(v) for k, v in _hits.items()}, f)

    atexit.register(dump)


def executable_lines(path: str) -> set:
    import dis

    lines: set = set()
    src = open(path).read()

    def walk(code):
        if code.co_flags & 0x1:  # function bodies only: module and class bodies run at import, before monitoring starts
            for _, _, ln in code.co_lines():
                if ln and ln != code.co_firstlineno:
                    lines.add(ln)
        for c in code.co_consts:
            if hasattr(c, "co_code"):
                walk(c)

    walk(compile(src, path, "exec"))
    # drop lines that only hold a docstring / def header artefacts is not attempted: report is indicative
    return lines


def report(cov_dir: str, repo_dir: str = "/repo") -> None:
    merged: dict[str, set] = {}
    per_check: dict[str, dict[str, set]] = {}
    for fn in os.listdir(cov_dir):
        if not fn.endswith(".json"):
            continue
        tag = fn.split("-")[0]
        for k, v in json.load(open(os.path.join(cov_dir, fn))).items():
            merged.setdefault(k, set()).update(v)
            per_check.setdefault(tag, {}).setdefault(k, set()).update(v)
    base = os.path.join(repo_dir, "formulaic")
    total = hit = 0
    for root, _, files in os.walk(base):
        for f in sorted(files):
            if not f.endswith(".py"):
                continue
            rel = os.path.relpath(os.path.join(root, f), base)
            ex = executable_lines(os.path.join(root, f))
            got = merged.get(rel, set()) & ex
            total += len(ex)
            hit += len(got)
            miss = sorted(ex - got)
            if miss:
                # compress to ranges
                rng, start = [], miss[0]
                prev = start
                for m in miss[1:]:
                    if m != prev + 1:
                        rng.append(f"{start}-{prev}" if prev != start else str(start))
                        start = m
                    prev = m
                rng.append(f"{start}-{prev}" if prev != start else str(start))
                print(f"{rel}: {len(got)}/{len(ex)} lines; never reached: {', '.join(rng)}")
            else:
                print(f"{rel}: {len(got)}/{len(ex)} lines")
    print(f"TOTAL {hit}/{total} = {100 * hit / max(total, 1):.1f}%")


if __name__ == "__main__":
    if len(sys.argv) >= 3 and sys.argv[1] == "report":
        report(sys.argv[2], sys.argv[3] if len(sys.argv) > 3 else "/repo")
