"""Shared seeded generators: data frames and materialization formulas with a known meaning.

Everything returned is JSON-able.  A *factor* is described by
    {"text": <as written in the formula>, "label": <documented column-name prefix>, "kind": "num"|"cat",
     "var": <data column for categoricals>, "levels": [...] (categoricals, in encoding order)}
so that an oracle can recompute the expected column from the data alone.
"""

from __future__ import annotations

import ast as pyast
import itertools
import math
import random

import numpy as np

CAT_VARS = ["A", "B", "G", "S"]  # S is text (object/str), the others categorical dtype
NUM_VARS = ["x", "y", "z", "p"]  # p is strictly positive
SAFE = "abcdefghijklmnopqrstuvwxyz0123456789"


def pynorm(src: str) -> str:
    return pyast.unparse(pyast.parse(src.strip(), mode="eval"))


def rand_levels(rng: random.Random, prefix: str, k: int) -> list[str]:
    out = []
    while len(out) < k:
        lv = prefix + "".join(rng.choice(SAFE) for _ in range(rng.randint(1, 3)))
        r = rng.random()
        if r < 0.12:  # labels that begin with an underscore, a digit or an upper-case letter are labels like any other
            lv = rng.choice(["_", "_", "9", "Z"]) + lv
        if lv not in out:
            out.append(lv)
    return out


def rand_frame(rng: random.Random, n: int, *, cats=("A", "B", "G", "S"), nums=("x", "y", "z", "p"),
               max_levels: int = 4, min_levels: int = 1, text_dtype: str | None = None, all_levels_present: bool = False,
               index: str = "default") -> dict:
    cols = []
    for c in cats:
        k = rng.randint(min_levels, max_levels)
        levels = rand_levels(rng, c.lower(), k)
        if all_levels_present and n >= k:
            vals = levels + [rng.choice(levels) for _ in range(n - k)]
            rng.shuffle(vals)
        else:
            vals = [rng.choice(levels) for _ in range(n)]
        if c == "S":
            cols.append([c, {"kind": "text", "dtype": text_dtype or rng.choice(["object", "str"]), "values": vals}])
        else:
            cats_decl = rng.sample(levels, len(levels))
            cols.append([c, {"kind": "cat", "categories": cats_decl, "ordered": rng.random() < 0.2, "values": vals}])
    for v in nums:
        if v == "p":
            vals = [round(rng.uniform(0.5, 3.0), 6) for _ in range(n)]
        else:
            mag = rng.choice([1, 1, 1, 1e-3, 1e4])
            r = rng.random()
            if r < 0.15:
                vals = [float(rng.randint(-5, 5)) for _ in range(n)]
            else:
                vals = [round(rng.gauss(0, 1), 6) * mag for _ in range(n)]
        cols.append([v, {"kind": "num", "dtype": "float64", "values": vals}])
    ix = None
    if index == "labels":
        ix = {"kind": "labels", "values": [f"r{rng.randint(0, max(1, n // 2))}" for _ in range(n)]}
    elif index == "ints":
        ix = {"kind": "labels", "values": rng.sample(range(1000), n)}
    elif index == "perm":  # a permutation of 0..n-1: labels look like positions but are not
        ix = {"kind": "labels", "values": rng.sample(range(n), n)}
    return {"cols": cols, "index": ix}


def frame_levels(frame: dict, var: str) -> list[str]:
    """Encoding order of a categorical/text column: declared order, or sorted distinct values for text."""
    from .data import col_spec, is_null

    c = col_spec(frame, var)
    if c["kind"] == "cat":
        return list(c["categories"])
    return sorted({v for v in c["values"] if not is_null(v)})


# ---- factor catalogue

NUM_TEMPLATES = [
    "{v}", "{v}", "{v}", "{{{v}+{w}}}", "I({v}*2)", "{{{v}**2}}", "{{-{v}}}", "{{{v} / 4}}", "np.abs({v})", "{{ {v} * {w} }}",
    "I( {v} - {w} )",
]
POS_TEMPLATES = ["log({v})", "np.sqrt({v})", "log10({v})", "{{1/{v}}}"]


def num_factor(rng: random.Random, v: str, nums) -> dict:
    if rng.random() < 0.12:  # a multi-column numeric factor with known columns: raw powers
        k = rng.choice([2, 3])
        text = f"poly({v}, {k}, raw=True)"
        return {"text": text, "label": pynorm(text), "kind": "multi", "fields": [str(i) for i in range(k)], "base": v}  # raw powers come back as an unnamed 2-D array: fields 0..k-1
    w = rng.choice([u for u in nums if u != v] or [v])
    tpl = rng.choice(POS_TEMPLATES + NUM_TEMPLATES[:4] if v == "p" else NUM_TEMPLATES)
    text = tpl.format(v=v, w=w)
    if text.startswith("{"):
        label = pynorm(text[1:-1])
    elif "(" in text:
        label = pynorm(text)
    else:
        label = text
    return {"text": text, "label": label, "kind": "num"}


def cat_factor(rng: random.Random, v: str, frame: dict, allow_C: bool = True) -> dict:
    wrap = allow_C and rng.random() < 0.3
    text = f"C({v})" if wrap else v
    return {"text": text, "label": text, "kind": "cat", "var": v, "levels": frame_levels(frame, v)}


def eval_num_label(label: str, frame: dict, ctx: dict | None = None, native: bool = False) -> np.ndarray:
    """Independent numpy evaluation of a numeric factor from its label (native=True: in the columns' own dtypes, for
    recognising results that are what fixed-width integer arithmetic would give)."""
    from .data import make_frame

    df = make_frame(frame)
    env = {k: (np.asarray(v, dtype=float) if isinstance(v, list) else v) for k, v in (ctx or {}).items()}
    if native:
        env.update({c: df[c].to_numpy() for c, spec in frame["cols"] if spec["kind"] == "num"})
        env.update({"np": np, "log": np.log, "log10": np.log10, "exp": np.exp, "I": lambda x: x})
        with np.errstate(all="ignore"):
            return np.asarray(eval(label, {"__builtins__": {}}, env))  # noqa: S307
    # data wins over context; a Python-expression factor is evaluated on the column as it is held (an expression over an
    # integer column is integer arithmetic: that is Python's meaning of the expression), its value then taken as a real number
    env.update({c: (df[c].to_numpy() if df[c].dtype.kind in "iu" and label != c else df[c].to_numpy(dtype=float)) for c, spec in frame["cols"] if spec["kind"] == "num"})
    env.update({"np": np, "log": np.log, "log10": np.log10, "exp": np.exp, "I": lambda x: x})
    with np.errstate(all="ignore"):
        val = eval(label, {"__builtins__": {}}, env)  # noqa: S307 - labels come from our own generator
    return np.asarray(val, dtype=float) * np.ones(len(df))


def split_label(name: str) -> list[str]:
    """Split a column name on ':' outside brackets."""
    parts, depth, cur = [], 0, ""
    for ch in name:
        if ch in "({[":
            depth += 1
        elif ch in ")}]":
            depth -= 1
        if ch == ":" and depth == 0:
            parts.append(cur)
            cur = ""
        else:
            cur += ch
    parts.append(cur)
    return parts


def rand_terms(rng: random.Random, frame: dict, *, cats, nums, max_terms=5, max_order=4, scales=True, allow_C=True) -> tuple[list, dict]:
    """Random distinct interaction terms over one factor per variable. Returns (terms, factors)."""
    factors = {}
    for v in cats:
        factors[v] = cat_factor(rng, v, frame, allow_C)
    for v in nums:
        factors[v] = num_factor(rng, v, nums)
    # two numeric factors may normalise to the same label (e.g. {x*y} and {y*x} do not, but x and x do)
    atoms = list(factors)
    terms, seen = [], set()
    for _ in range(rng.randint(1, max_terms)):
        k = rng.randint(1, min(max_order, len(atoms)))
        fs = rng.sample(atoms, k)
        key = frozenset(factors[f]["label"] for f in fs)
        if key in seen or len(key) != len(fs):
            continue
        seen.add(key)
        scale = rng.choice([None, None, None, "2", "2.5", "0.5", "3"]) if scales else None
        if scale is not None and rng.random() < 0.06:  # a literal as written is the scale: however small, with however many digits
            scale = rng.choice(["0.00000000125", "0.000000000043", "1234.5678901234567"])
        term = {"scale": scale, "scale_pos": rng.randint(0, k), "factors": fs}
        if scale and rng.random() < 0.3:  # a second, different literal somewhere else in the term: the scale is their product
            term["scale2"] = rng.choice([c for c in ["2", "2.5", "0.5", "3", "10"] if c != scale])
            term["scale2_pos"] = rng.randint(0, k + 1)
        terms.append(term)
    if not terms:
        terms.append({"scale": None, "scale_pos": 0, "factors": [atoms[0]]})
    return terms, {k: v for k, v in factors.items() if any(k in t["factors"] for t in terms)}


def term_text(term: dict, factors: dict) -> str:
    fs = [factors[f]["text"] for f in term["factors"]]
    if term["scale"]:
        fs.insert(term["scale_pos"], term["scale"])
    if term.get("scale2"):
        fs.insert(term["scale2_pos"], term["scale2"])
    return ":".join(fs)


def formula_text(terms: list, factors: dict, icpt: bool, rng: random.Random | None = None) -> str:
    head = "1" if icpt else "0"
    if icpt and rng is not None and rng.random() < 0.5:
        return " + ".join(term_text(t, factors) for t in terms)
    return " + ".join([head] + [term_text(t, factors) for t in terms])


def degree_sorted(terms: list) -> list:
    return sorted(terms, key=lambda t: len(t["factors"]))


def full_product_names(term: dict, factors: dict) -> list[str]:
    """Column names of the complete Kronecker product of a term (first factor fastest)."""
    opts = []
    for f in term["factors"]:
        fa = factors[f]
        if fa["kind"] == "cat":
            opts.append([f"{fa['label']}[{lv}]" for lv in fa["levels"]])
        elif fa["kind"] == "multi":
            opts.append([f"{fa['label']}[{k}]" for k in fa["fields"]])
        else:
            opts.append([fa["label"]])
    return [":".join(reversed(p)) for p in itertools.product(*reversed(opts))]


def isfinite_list(vals) -> bool:
    return all(v is None or math.isfinite(v) for v in vals)
