"""Runner, verdicts, evidence, known findings and replay for the fxmon checks.

A check module (fxmon/checks/cXX.py) exposes

    ID, RULE, ASSUMPTIONS (list[str]), DESIGN_REF
    SUBS: dict[name, Sub]      # sub-monitors of the property
    PINNED: list[(sub, case)]  # directed cases always run first (known findings, regressions)

A `Sub` has a generator `gen(rng, tier) -> case` (JSON-able dict) or an enumerator
`enum(tier) -> iterable[case]` (finite sub-space, exhaustive), and an oracle
`judge(case) -> Outcome`.  Generation and judging are separated so that every
failing case can be replayed from its JSON alone (`python -m fxmon replay <file>`).

Verdicts are three-valued: exit 0 held on what was observed / 1 violated / 2 inconclusive.
"""

from __future__ import annotations

import hashlib
import json
import os
import random
import signal
import subprocess
import sys
import time
import traceback
from dataclasses import dataclass, field
from typing import Any, Callable, Iterable, Optional

from . import REPO_DIR, VERIF_DIR

# evidence/ only ever describes runs against /repo itself; runs against a scratch copy (self-tests) write elsewhere
EVIDENCE_DIR = os.path.join(VERIF_DIR, "evidence" if os.path.realpath(REPO_DIR) == "/repo" else "out/evidence_scratch")
REPLAY_DIR = os.path.join(VERIF_DIR, "replays")
OUT_DIR = os.path.join(VERIF_DIR, "out")
KNOWN_FILE = os.path.join(VERIF_DIR, "known_findings.json")

CASE_TIMEOUT_S = 120  # generous wall-clock watchdog per case; firing = inconclusive


# ------------------------------------------------------------------ outcome of one case


@dataclass
class Outcome:
    """What the oracle concluded about one case."""

    sig: Any = None  # signature for distinctness (None => trivial / not counted)
    fails: list = field(default_factory=list)  # [{"mech": str, "msg": str}]
    obs: dict = field(default_factory=dict)  # counters observed (added up in evidence)
    states: list = field(default_factory=list)  # distinct internal states seen (strings)
    decided: bool = True  # False => oracle was silent on this case (counts as undecided)

    def fail(self, mech: str, msg: str) -> None:
        self.fails.append({"mech": mech, "msg": str(msg)[:2000]})

    def see(self, key: str, n: int = 1) -> None:
        self.obs[key] = self.obs.get(key, 0) + n


@dataclass
class Sub:
    judge: Callable[[dict], Outcome]
    gen: Optional[Callable[[random.Random, str], dict]] = None
    enum: Optional[Callable[[str], Iterable[dict]]] = None
    quick: int = 100  # random cases over the whole run (all shards), quick tier
    thorough: int = 1000
    min_decided: int = 1  # fewer decided cases than this => inconclusive
    doc: str = ""


class CaseTimeout(Exception):
    pass


def _alarm(signum, frame):  # pragma: no cover
    raise CaseTimeout()


def sighash(sig: Any) -> str:
    return hashlib.blake2b(repr(sig).encode("utf8", "replace"), digest_size=6).hexdigest()


def casehash(case: dict) -> str:
    return hashlib.blake2b(
        json.dumps(case, sort_keys=True, default=repr).encode(), digest_size=6
    ).hexdigest()


# ------------------------------------------------------------------ known findings


def load_known(prop: str) -> dict[str, dict]:
    """mechanism -> entry, for *open* findings of `prop` (fixed entries suppress nothing)."""
    if not os.path.exists(KNOWN_FILE):
        return {}
    data = json.load(open(KNOWN_FILE))
    return {
        e["mechanism"]: e
        for e in data.get("findings", [])
        if e.get("property") == prop and e.get("status") == "open"
    }


# ------------------------------------------------------------------ worker (one shard)


def run_shard(mod, tier: str, seed: int, shard: int, nshards: int, budget_s: float) -> dict:
    """Run one shard of a check in this process and return a JSON-able summary."""
    from . import probes

    t0 = time.time()
    res: dict[str, Any] = {
        "evaluations": 0,
        "decided": 0,
        "sigs": set(),
        "states": set(),
        "obs": {},
        "fails": [],  # [{"sub","case","fails","index"}]
        "timeouts": 0,
        "errors": [],
        "per_sub": {},
        "samples": [],
        "truncated": False,
        "exhaustive_subs": [],
    }
    probe_state = probes.attach(mod.ID)
    signal.signal(signal.SIGALRM, _alarm)

    def one(subname: str, sub: Sub, case: dict, index) -> None:
        ps = res["per_sub"].setdefault(subname, {"evaluations": 0, "decided": 0, "failing": 0})
        ps["evaluations"] += 1
        res["evaluations"] += 1
        probes.begin_case()
        signal.setitimer(signal.ITIMER_REAL, CASE_TIMEOUT_S)
        try:
            out = sub.judge(case)
        except CaseTimeout:
            res["timeouts"] += 1
            return
        except Exception as e:  # the oracle itself crashed: that is my bug -> inconclusive, loud
            res["errors"].append(
                {"sub": subname, "case": case, "error": f"{type(e).__name__}: {e}",
                 "tb": traceback.format_exc()[-1500:]}
            )
            return
        finally:
            signal.setitimer(signal.ITIMER_REAL, 0)
        for b in probes.end_case():
            out.fails.append(b)
        if out.decided:
            res["decided"] += 1
            ps["decided"] += 1
        if out.sig is not None:
            res["sigs"].add(sighash((subname, out.sig)))
        for s in out.states:
            res["states"].add(f"{subname}:{s}")
        for k, v in out.obs.items():
            key = f"{subname}.{k}"
            res["obs"][key] = res["obs"].get(key, 0) + v
        if out.fails:
            ps["failing"] += 1
            if len(res["fails"]) < 200:
                res["fails"].append({"sub": subname, "case": case, "fails": out.fails, "index": index})
        elif len(res["samples"]) < 3 and ps["evaluations"] in (1, 7, 50):
            res["samples"].append({"sub": subname, "case": case})

    # pinned cases: shard 0 only
    if shard == 0:
        for k, (subname, case) in enumerate(getattr(mod, "PINNED", [])):
            one(subname, mod.SUBS[subname], case, f"pinned-{k}")

    subs_left = len(mod.SUBS)
    for subname, sub in mod.SUBS.items():
        # each sub-monitor gets an equal share of whatever time remains, so that a slow one cannot starve the others
        deadline = time.time() + max(0.0, t0 + budget_s - time.time()) / subs_left
        subs_left -= 1
        if sub.enum is not None:
            complete = True
            for k, case in enumerate(sub.enum(tier)):
                if k % nshards != shard:
                    continue
                if time.time() > deadline:
                    res["truncated"] = True
                    complete = False
                    break
                one(subname, sub, case, f"enum-{k}")
            if complete:
                res["exhaustive_subs"].append(subname)
        if sub.gen is not None:
            total = sub.quick if tier == "quick" else sub.thorough
            n = total // nshards + (1 if shard < total % nshards else 0)
            rng = random.Random(f"{mod.ID}/{subname}/{seed}/{shard}/{nshards}")
            for k in range(n):
                if time.time() > deadline:
                    res["truncated"] = True
                    break
                st = rng.getstate()
                try:
                    case = sub.gen(rng, tier)
                except Exception as e:
                    res["errors"].append({"sub": subname, "case": None, "error": f"gen: {type(e).__name__}: {e}",
                                          "tb": traceback.format_exc()[-1500:]})
                    rng.setstate(st)
                    rng.random()
                    continue
                one(subname, sub, case, f"{seed}/{shard}/{k}")

    res["probes"] = probes.summary(probe_state)
    res["sigs"] = sorted(res["sigs"])
    res["states"] = sorted(res["states"])
    res["wall_s"] = time.time() - t0
    return res


# ------------------------------------------------------------------ parent: shard, merge, decide


def shards_for(tier: str) -> int:
    env = os.environ.get("FXMON_SHARDS")
    if env:
        return max(1, int(env))
    ncpu = os.cpu_count() or 4
    return max(1, min(16, ncpu) if tier == "thorough" else min(8, ncpu))


def run_check(mod, tier: str, seed: int) -> int:
    t0 = time.time()
    os.makedirs(EVIDENCE_DIR, exist_ok=True)
    os.makedirs(OUT_DIR, exist_ok=True)
    nshards = shards_for(tier)
    budget_s = float(os.environ.get("FXMON_BUDGET_S", "240" if tier == "quick" else "600"))
    outs = []
    procs = []
    env = dict(os.environ)
    env.setdefault("PYTHONHASHSEED", "0")
    env["PYTHONPATH"] = VERIF_DIR + os.pathsep + env.get("PYTHONPATH", "")
    for k in range(nshards):
        out = os.path.join(OUT_DIR, f"{mod.ID}-{tier}-{seed}-{os.getpid()}-{k}.json")
        if os.path.exists(out):
            os.remove(out)
        outs.append(out)
        cmd = [sys.executable, "-X", "faulthandler", "-m", "fxmon", "worker", mod.ID, "--tier", tier,
               "--seed", str(seed), "--shard", f"{k}/{nshards}", "--budget", str(budget_s), "--out", out]
        log = open(out + ".log", "w")
        procs.append((subprocess.Popen(cmd, cwd=VERIF_DIR, env=env, stdout=log, stderr=subprocess.STDOUT), log))
    watchdog = budget_s * 2 + 300
    inconclusive: list[str] = []
    for k, (p, log) in enumerate(procs):
        try:
            p.wait(timeout=max(5.0, watchdog - (time.time() - t0)))
        except subprocess.TimeoutExpired:
            p.kill()
            inconclusive.append(f"shard {k} hit the wall-clock watchdog")
        log.close()
        if p.returncode not in (0, None):
            inconclusive.append(f"shard {k} exited {p.returncode} (see {outs[k]}.log)")

    merged: dict[str, Any] = {
        "evaluations": 0, "decided": 0, "sigs": set(), "states": set(), "obs": {}, "fails": [], "timeouts": 0,
        "errors": [], "per_sub": {}, "samples": [], "probes": {}, "truncated": False, "exh": None,
    }
    for k, out in enumerate(outs):
        if not os.path.exists(out):
            if not any(f"shard {k} " in s for s in inconclusive):
                inconclusive.append(f"shard {k} wrote no result")
            continue
        r = json.load(open(out))
        merged["evaluations"] += r["evaluations"]
        merged["decided"] += r["decided"]
        merged["sigs"].update(r["sigs"])
        merged["states"].update(r["states"])
        merged["timeouts"] += r["timeouts"]
        merged["errors"] += r["errors"]
        merged["fails"] += r["fails"]
        merged["truncated"] |= r["truncated"]
        merged["samples"] += r["samples"]
        ex = set(r["exhaustive_subs"])
        merged["exh"] = ex if merged["exh"] is None else (merged["exh"] & ex)
        for kk, v in r["obs"].items():
            merged["obs"][kk] = merged["obs"].get(kk, 0) + v
        for kk, v in r["per_sub"].items():
            d = merged["per_sub"].setdefault(kk, {"evaluations": 0, "decided": 0, "failing": 0})
            for f in d:
                d[f] += v[f]
        for kk, v in r["probes"].items():
            d = merged["probes"].setdefault(kk, {"evaluations": 0, "breaches": 0, "attached": 0, "unreached": 0})
            d["evaluations"] += v.get("evaluations", 0)
            d["breaches"] += v.get("breaches", 0)
            d["attached"] += 1 if v.get("attached") else 0
            for extra, val in v.items():
                if extra not in ("evaluations", "breaches", "attached") and isinstance(val, (int, float)):
                    d[extra] = d.get(extra, 0) + val
        os.remove(out)
        try:
            os.remove(out + ".log")
        except OSError:
            pass

    # classify failures against the committed known findings
    known = load_known(mod.ID)
    hit_known: dict[str, int] = {}
    violations = []
    for f in merged["fails"]:
        unknown = [x for x in f["fails"] if x["mech"] not in known]
        for x in f["fails"]:
            if x["mech"] in known:
                hit_known[x["mech"]] = hit_known.get(x["mech"], 0) + 1
        if unknown:
            violations.append({**f, "fails": unknown})

    for mech, entry in known.items():
        if hit_known.get(mech):
            print(f"KNOWN-FINDING: property={mod.ID} {entry['id']} {entry['what']} [observed {hit_known[mech]}x]")
        else:
            print(f"NOTE: known finding {entry['id']} ({mech}) was not observed in this run")

    # sub-monitors that decided too little, or probes never reached => inconclusive
    for subname, sub in mod.SUBS.items():
        got = merged["per_sub"].get(subname, {}).get("decided", 0)
        if got < sub.min_decided:
            inconclusive.append(f"sub-monitor {subname} decided {got} < {sub.min_decided} cases")
    if merged["timeouts"]:
        inconclusive.append(f"{merged['timeouts']} cases hit the per-case watchdog")
    if merged["errors"]:
        inconclusive.append(f"{len(merged['errors'])} oracle/generator errors, first: {merged['errors'][0]['error']}")
        errp = os.path.join(OUT_DIR, f"{mod.ID}-errors.json")
        json.dump(merged["errors"][:20], open(errp, "w"), indent=1, default=repr)
    unreached = [k for k, v in merged["probes"].items() if v["attached"] and not v["evaluations"]]
    missing = [k for k, v in merged["probes"].items() if not v["attached"]]

    # replays
    os.makedirs(REPLAY_DIR, exist_ok=True)
    per_mech: dict[tuple, int] = {}
    nviol = len(violations)
    written = 0
    for v in violations:
        key = tuple(sorted({x["mech"] for x in v["fails"]}))
        per_mech[key] = per_mech.get(key, 0) + 1
        if per_mech[key] > 3 or written >= 40:
            continue  # counted, but keep only a few replays per mechanism
        written += 1
        path = os.path.join(REPLAY_DIR, f"{mod.ID}-{casehash(v['case'])}.json")
        json.dump({"property": mod.ID, "sub": v["sub"], "case": v["case"], "fails": v["fails"],
                   "tier": tier, "seed": seed, "index": v["index"]}, open(path, "w"), indent=1, default=repr)
        print(f"VIOLATION property={mod.ID} replay={path}")
        print(f"  sub={v['sub']} mech={','.join(key)} :: {v['fails'][0]['msg'][:300]}")
    for key, n in per_mech.items():
        print(f"  violating cases with mechanism {','.join(key)}: {n}")

    exhaustive = bool(merged["exh"]) and all(s.gen is None for s in mod.SUBS.values()) and merged["exh"] == set(mod.SUBS)
    distinct = len(merged["sigs"])
    coverage = {
        "evaluations": merged["evaluations"],
        "distinct_nontrivial": distinct,
        "rule": mod.RULE,
        "samples": merged["samples"][:6] or [{"note": "no passing sample recorded"}],
        "decided": merged["decided"],
        "per_sub_monitor": merged["per_sub"],
        "observed": dict(sorted(merged["obs"].items())),
        "distinct_internal_states": len(merged["states"]),
        "internal_states_sample": sorted(merged["states"])[:40],
        "probes": merged["probes"],
        "probes_unreached": unreached,
        "probes_not_attached": missing,
        "known_findings_observed": hit_known,
        "exhaustive_sub_monitors": sorted(merged["exh"] or []),
        "exhaustive": exhaustive,
        "shards": nshards,
        "truncated_by_time_budget": merged["truncated"],
        "inconclusive_reasons": inconclusive,
    }
    ev = {
        "property_id": mod.ID,
        "tier": tier,
        "seed": seed,
        "level": "exploration",
        "coverage": coverage,
        "assumptions": list(mod.ASSUMPTIONS),
        "wall_s": round(time.time() - t0, 2),
        "violations": nviol,
    }
    json.dump(ev, open(os.path.join(EVIDENCE_DIR, f"{mod.ID}.json"), "w"), indent=1, default=repr)

    status = "VIOLATED" if nviol else ("INCONCLUSIVE" if inconclusive else "held")
    print(f"[{mod.ID}] {status}: tier={tier} seed={seed} shards={nshards} evaluations={merged['evaluations']} "
          f"decided={merged['decided']} distinct={distinct} states={len(merged['states'])} "
          f"violating_cases={nviol} known={sum(hit_known.values())} wall={ev['wall_s']}s")
    for k, v in merged["probes"].items():
        print(f"  probe {k}: evaluations={v['evaluations']} breaches={v['breaches']}")
    if unreached:
        print(f"  MONITOR-UNREACHED {' '.join(unreached)} (boundary oracle still decides)")
    if nviol:
        return 1
    if inconclusive:
        for r in inconclusive:
            print(f"INCONCLUSIVE property={mod.ID} reason={r}")
        return 2
    return 0


def replay(path: str) -> int:
    from .checks import load

    rec = json.load(open(path))
    mod = load(rec["property"])
    from . import probes

    probes.attach(mod.ID)
    probes.begin_case()
    out = mod.SUBS[rec["sub"]].judge(rec["case"])
    out.fails += probes.end_case()
    known = load_known(mod.ID)
    bad = [f for f in out.fails if f["mech"] not in known]
    print(json.dumps({"sub": rec["sub"], "case": rec["case"]}, indent=1, default=repr)[:4000])
    for f in out.fails:
        tag = "KNOWN-FINDING" if f["mech"] in known else "FAIL"
        print(f"{tag} {f['mech']}: {f['msg']}")
    if bad:
        print(f"VIOLATION property={mod.ID} replay={path}")
        return 1
    print("replay: no (unlisted) violation on the current tree")
    return 0
