"""fxmon - runtime monitors for matthewwardrop/formulaic (see /verif/DESIGN.md)."""

import os
import sys

VERIF_DIR = os.path.dirname(os.path.dirname(os.path.abspath(__file__)))
REPO_DIR = os.environ.get("VERIF_REPO_DIR", "/repo")
DEPS_DIR = os.path.join(VERIF_DIR, ".deps")
GUARD = "FORMULAIC_VERIF"


def use_repo() -> str:
    """Make `import formulaic` resolve to the tree under test and return its path."""
    os.environ.setdefault(GUARD, "1")
    if REPO_DIR not in sys.path[:1]:
        sys.path.insert(0, REPO_DIR)
    if DEPS_DIR not in sys.path and os.path.isdir(DEPS_DIR):
        sys.path.append(DEPS_DIR)  # appended: never shadows /venv packages
    import formulaic

    actual = os.path.dirname(os.path.dirname(os.path.abspath(formulaic.__file__)))
    if os.path.realpath(actual) != os.path.realpath(REPO_DIR):
        raise RuntimeError(f"formulaic imported from {actual}, expected {REPO_DIR}")
    return actual
