"""Probe installers P1..P10 (filled in progressively; see DESIGN.md section 2.1)."""
