"""Probe installers P1..P10 (DESIGN.md section 2.1).  Everything here is attached from outside the repository:
wrappers re-bound onto the real functions/classes (every alias), and an icontract class invariant.

Rules: a probe never raises into the code it observes; its own failures are counted as `probe_errors`; conditions are no
stricter than what correct code does; P7/P10 are diagnostic (they count, they never fail a case).
"""

from __future__ import annotations

import copy
import functools
import importlib
import itertools
import re

import numpy as np

from .probes import breach, installer, wrap

MAT = {"C02", "C03", "C04", "C05", "C06", "C07", "C08", "C09", "C10", "C17", "C18", "C20", "C12", "C13", "C11"}
PARSE = {"C01", "C14", "C15", "C16", "C17", "C20"}


def guarded(st, fn):
    """Run a probe body; internal errors of the probe are counted, never propagated."""
    try:
        fn()
    except Exception as e:  # noqa: BLE001
        st["probe_errors"] = st.get("probe_errors", 0) + 1
        st.setdefault("probe_error_sample", f"{type(e).__name__}: {str(e)[:160]}")


# ------------------------------------------------------------------ P1 resolve-conservation


@installer("P1_resolve_conservation", PARSE)
def p1(st):
    from formulaic.parser.parser import DefaultOperatorResolver

    orig = DefaultOperatorResolver.resolve

    def collapse(sym):
        return re.sub(r"[+\-]{2,}", lambda m: "-" if m.group(0).count("-") % 2 else "+", sym)

    def resolve(self, token):
        yielded = []
        for item in orig(self, token):
            yielded.append(item)
            yield item

        def body():
            st["evaluations"] += 1
            got = "".join(ops[0].symbol for _, ops in yielded if ops)
            want = collapse(token.token)
            if got != want:
                breach("P1_resolve_conservation", f"operator token {token.token!r} resolved to symbols {got!r}; conserving the characters (sign runs collapsed by parity) gives {want!r}")

        guarded(st, body)

    DefaultOperatorResolver.resolve = resolve


# ------------------------------------------------------------------ P2 operand-conservation


@installer("P2_operand_conservation", PARSE)
def p2(st):
    mod = importlib.import_module("formulaic.parser.algos.tokens_to_ast")
    from formulaic.parser.types import ASTNode, Token

    orig = mod.tokens_to_ast

    def leaves(node, acc):
        if isinstance(node, ASTNode):
            for a in node.args:
                leaves(a, acc)
        elif isinstance(node, Token):
            acc.append(node)
        return acc

    def tokens_to_ast(tokens, operator_resolver):
        toks = list(tokens)
        ast = orig(iter(toks), operator_resolver)

        def body():
            st["evaluations"] += 1
            want = [t.token for t in toks if t.kind is not None and t.kind.value not in ("operator", "context")]
            got = [t.token for t in leaves(ast, [])] if ast is not None else []
            if got != want:
                breach("P2_operand_conservation", f"AST leaves {got} differ from the operand tokens {want}")

        guarded(st, body)
        return ast

    functools.update_wrapper(tokens_to_ast, orig)
    mod.tokens_to_ast = tokens_to_ast
    for name in ("formulaic.parser.algos", "formulaic.parser.parser", "formulaic.utils.constraints", "formulaic.parser.types.formula_parser"):
        try:
            m = importlib.import_module(name)
            if getattr(m, "tokens_to_ast", None) is orig:
                m.tokens_to_ast = tokens_to_ast
        except Exception:  # noqa: BLE001
            pass


# ------------------------------------------------------------------ P3 token spans


@installer("P3_token_spans", PARSE | MAT)
def p3(st):
    mod = importlib.import_module("formulaic.parser.algos.tokenize")
    orig = mod.tokenize

    def tokenize(formula, *a, **k):
        last = -1
        # known finding K3a (C15): an empty quoted token (``, %%, {}) is dropped and shifts the span of the next token
        empty_name = "``" in formula or "%%" in formula or "{}" in formula
        for t in orig(formula, *a, **k):
            st["evaluations"] += 1
            if empty_name:
                st["skipped_empty_name"] = st.get("skipped_empty_name", 0) + 1
                yield t
                continue
            try:
                s, e = t.source_start, t.source_end
                if s is None or e is None or not (0 <= s <= e < len(formula)) or s <= last:
                    breach("P3_token_spans", f"{formula!r}: token {t.token!r} span ({s},{e}) out of range or not after the previous token (end {last})")
                else:
                    src = formula[s: e + 1]
                    cands = {src, src[1:] if src[:1] in "`{%" else src}
                    if t.kind is not None and t.kind.value == "operator":
                        cands |= {"".join(c.split()) for c in list(cands)}
                    if t.token not in cands:
                        breach("P3_token_spans", f"{formula!r}: token {t.token!r} but its span covers {src!r}")
                    last = e
            except Exception:  # noqa: BLE001
                st["probe_errors"] = st.get("probe_errors", 0) + 1
            yield t

    functools.update_wrapper(tokenize, orig)
    mod.tokenize = tokenize
    for name in ("formulaic.parser.algos", "formulaic.parser.parser", "formulaic.utils.constraints", "formulaic.parser.types.formula_parser"):
        try:
            m = importlib.import_module(name)
            if getattr(m, "tokenize", None) is orig:
                m.tokenize = tokenize
        except Exception:  # noqa: BLE001
            pass


# ------------------------------------------------------------------ P4 column product


def _vec(v):
    if hasattr(v, "toarray"):
        return np.asarray(v.toarray(), dtype=float).reshape(-1)
    if hasattr(v, "to_numpy"):
        return np.asarray(v.to_numpy(), dtype=float).reshape(-1)
    return np.asarray(v, dtype=float).reshape(-1)


def _small_int_inputs(snap):
    for f in snap:
        for v in f.values():
            dt = getattr(getattr(v, "__wrapped__", v), "dtype", None)
            try:
                if dt is not None and np.dtype(dt).kind in "iu" and np.dtype(dt).itemsize < 8:
                    return True
            except TypeError:
                if str(dt).lower() in ("int8", "int16", "int32", "uint8", "uint16", "uint32"):
                    return True
    return False


@installer("P4_column_product", MAT)
def p4(st):
    from formulaic.materializers import base, narwhals as nwm, pandas as pdm

    def make(orig):
        def w(self, factors, spec, scale=1):
            snap = [dict(f) for f in factors]  # the fast path pops from the list
            out = orig(self, factors, spec=spec, scale=scale)

            def body():
                st["evaluations"] += 1
                names, exp = [], {}
                for prod in itertools.product(*(list(f.items()) for f in reversed(snap))):
                    prod = prod[::-1]
                    nm = ":".join(str(p[0]) for p in prod)
                    names.append(nm)
                    val = scale
                    for p in prod:
                        val = val * _vec(p[1])
                    exp[nm] = val
                if list(out) != names:
                    breach("P4_column_product", f"_get_columns_for_term names {list(out)[:6]} != product of factor keys (first fastest) {names[:6]}")
                    return
                for nm in names:
                    got = _vec(out[nm])
                    tol = 1e-9 * max(1.0, float(np.nanmax(np.abs(exp[nm]))) if exp[nm].size else 1.0)
                    if got.shape != np.shape(exp[nm]) or not np.allclose(got, exp[nm], equal_nan=True, rtol=1e-9, atol=tol):
                        if _small_int_inputs(snap):  # fixed-width integer arithmetic (finding K9), reported under its own name
                            breach("P4_column_product", f"column {nm!r}: factor columns of a small integer dtype are multiplied in that width", mech="P4_small_integer_wrap")
                        else:
                            breach("P4_column_product", f"column {nm!r} != scale({scale}) x product of its factor columns")
                        return

            guarded(st, body)
            return out

        return w

    for cls in (base.FormulaMaterializer, pdm.PandasMaterializer, nwm.NarwhalsMaterializer):
        if "_get_columns_for_term" in cls.__dict__:
            wrap(cls, "_get_columns_for_term", make)


# ------------------------------------------------------------------ P5 span conservation (+ scale carried by every scoped term)


@installer("P5_span_conservation", MAT)
def p5(st):
    from formulaic.materializers.base import FormulaMaterializer
    from formulaic.materializers.types import ScopedFactor

    depth = [0]

    def make(orig):
        def w(cls, scoped_terms):
            scoped_terms = list(scoped_terms)
            depth[0] += 1
            try:
                out = orig(cls, scoped_terms)
            finally:
                depth[0] -= 1
            if depth[0] == 0:
                def body():
                    st["evaluations"] += 1

                    def expand(stm):
                        opts = []
                        for f in stm.factors:
                            if f.factor.metadata.spans_intercept and not f.reduced:
                                opts.append([ScopedFactor(f.factor, reduced=True), None])
                            else:
                                opts.append([f])
                        return [frozenset((x.factor.expr, x.reduced) for x in prod if x is not None) for prod in itertools.product(*opts)]

                    exp_in = [frozenset((x.factor.expr, x.reduced) for x in stm.factors) for stm in scoped_terms]
                    exp_out = [e for stm in out for e in expand(stm)]
                    if sorted(map(sorted, exp_in)) != sorted(map(sorted, exp_out)) or len(set(exp_out)) != len(exp_out):
                        breach("P5_span_conservation", f"_simplify_scoped_terms: {scoped_terms} -> {list(out)} does not span exactly the input without overlap")
                    scales_in = {stm.scale for stm in scoped_terms}
                    scales_out = {stm.scale for stm in out}
                    if len(scales_in) == 1 and scales_out and scales_out != scales_in:
                        breach("P5_span_conservation", f"_simplify_scoped_terms changed the literal scale: in {scales_in} out {scales_out}")

                guarded(st, body)
            return out

        return w

    wrap(FormulaMaterializer, "_simplify_scoped_terms", make)


# ------------------------------------------------------------------ P6 row conservation


@installer("P6_row_conservation", MAT)
def p6(st):
    from formulaic.materializers import narwhals as nwm, pandas as pdm

    def make(orig):
        def w(self, cols, spec, drop_rows):
            out = orig(self, cols, spec=spec, drop_rows=drop_rows)

            def body():
                st["evaluations"] += 1
                exp = self.nrows - len(drop_rows)
                if out.shape[0] != exp:
                    breach("P6_row_conservation", f"_combine_columns returned {out.shape[0]} rows; input rows {self.nrows} - dropped {len(drop_rows)} = {exp}")
                for nm, v in cols:
                    if v.shape[0] != exp:
                        breach("P6_row_conservation", f"encoded column {nm!r} has {v.shape[0]} rows, expected {exp}")
                        break

            guarded(st, body)
            return out

        return w

    for cls in (pdm.PandasMaterializer, nwm.NarwhalsMaterializer):
        wrap(cls, "_combine_columns", make)


# ------------------------------------------------------------------ P7 state write-once (diagnostic)


@installer("P7_state_write_once", {"C04", "C18", "C13", "C12"})
def p7(st):
    from formulaic.transforms import TRANSFORMS

    def digest(o):
        try:
            return repr(sorted((k, np.asarray(v).tolist() if not isinstance(v, (dict, str)) else repr(v)) for k, v in o.items()))
        except Exception:  # noqa: BLE001
            return repr(o)

    def make(name, orig):
        @functools.wraps(orig)
        def w(*a, **k):
            state = k.get("_state")
            before = digest(state) if isinstance(state, dict) and state else None
            out = orig(*a, **k)
            if before is not None:
                st["evaluations"] += 1
                if digest(state) != before:
                    st["state_rewritten"] = st.get("state_rewritten", 0) + 1  # diagnostic only
            return out

        return w

    for name in ("scale", "center", "poly", "bs", "cr", "cs", "cc", "standardize"):
        fn = TRANSFORMS.get(name)
        if fn is not None and hasattr(fn, "__call__"):
            TRANSFORMS[name] = make(name, fn)


# ------------------------------------------------------------------ P8 structure padding


@installer("P8_structure_padding", {"C09", "C04", "C18", "C07", "C06"})
def p8(st):
    from formulaic.materializers.base import FormulaMaterializer
    from formulaic.parser.types import Factor

    def make(orig):
        def w(self, cols, spec, drop_rows):
            cols = list(cols)

            def body():
                st["evaluations"] += 1
                structure = spec.structure
                for i, col_spec in enumerate(cols):
                    scoped_cols, target = col_spec[2], structure[i][2]
                    if len(scoped_cols) == 1 and len(target) > 1:
                        st["padding_events"] = st.get("padding_events", 0) + 1
                        for f in col_spec[0].factors:
                            rec = spec.encoder_state.get(f.expr)
                            if rec and rec[0] is Factor.Kind.CATEGORICAL:
                                breach("P8_structure_padding", f"term {col_spec[0]}: one generated column {list(scoped_cols)} copied into the recorded columns {list(target)} of categorical-at-fit factor {f.expr!r}")
                                return

            guarded(st, body)
            return orig(self, cols, spec, drop_rows)

        return w

    wrap(FormulaMaterializer, "_enforce_structure", make)


# ------------------------------------------------------------------ P9 class invariant on SimpleFormula (icontract)


@installer("P9_formula_invariant", {"C19", "C01", "C20", "C10"})
def p9(st):
    import icontract
    from formulaic.formula import SimpleFormula

    def ordering_invariant(self):
        try:
            st["evaluations"] += 1
            order = getattr(self.ordering, "value", self.ordering)
            terms = list(self)
            if order in ("degree", "sort"):
                degs = [t.degree for t in terms]
                if degs != sorted(degs):
                    breach("P9_formula_invariant", f"SimpleFormula(ordering={order}) holds terms with degrees {degs}")
            if order == "sort":
                keys = [(t.degree, sorted(f.expr for f in t.factors)) for t in terms]
                if keys != sorted(keys):
                    breach("P9_formula_invariant", f"SimpleFormula(ordering=sort) is not sorted: {terms}")
        except Exception:  # noqa: BLE001
            st["probe_errors"] = st.get("probe_errors", 0) + 1
        return True  # record-and-continue: never abort the observed code

    class InvariantBroken(Exception):
        pass

    icontract.invariant(ordering_invariant, error=InvariantBroken)(SimpleFormula)


# ------------------------------------------------------------------ P10 aliasing (diagnostic)


@installer("P10_spec_aliasing", {"C18", "C04"})
def p10(st):
    from formulaic.model_spec import ModelSpec

    def dig(spec):
        try:
            return repr((sorted(map(repr, spec.transform_state.items())), sorted(map(repr, spec.encoder_state.items())), repr(spec.formula), bool(spec.structure)))
        except Exception:  # noqa: BLE001
            return None

    def make(orig):
        def w(self, data, *a, **k):
            before = dig(self)
            out = orig(self, data, *a, **k)
            st["evaluations"] += 1
            if before is not None and dig(self) != before:
                st["caller_spec_changed"] = st.get("caller_spec_changed", 0) + 1  # diagnostic only
            return out

        return w

    wrap(ModelSpec, "get_model_matrix", make)
